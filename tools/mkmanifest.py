#!/usr/bin/env python3
"""Regenerates /verif/MANIFEST.json from props/*.json (claimed checks) and tools/na.json (reasons)."""
import json, os, glob, subprocess
V = os.path.dirname(os.path.dirname(os.path.abspath(__file__)))
ENV = "PATH=/opt/veriftools/go1.26.8/bin:$PATH GOTOOLCHAIN=local GOFLAGS=-mod=mod GOPROXY=off GOSUMDB=off"
props = {}
for f in sorted(glob.glob(os.path.join(V, "props", "C*.json"))):
    p = json.load(open(f))
    props[p["property"]] = p
na = json.load(open(os.path.join(V, "tools", "na.json")))
ids = [json.loads(l)["id"] for l in open(os.path.join(V, "properties.jsonl"))]
hooks = []
try:
    out = subprocess.run(["git", "-C", "/repo", "log", "--format=%H %s"], capture_output=True, text=True).stdout
    for line in out.splitlines():
        h, s = line.split(" ", 1)
        if s.startswith("verif-hook:"):
            hooks.append(h)
except Exception:
    pass
checks = []
for pid in ids:
    p = props.get(pid)
    if not p or not p.get("claimed", True):
        continue
    checks.append({
        "property_id": pid,
        "quick_cmd": "bin/check %s" % pid,
        "thorough_cmd": "VERIF_TIER=thorough bin/check %s" % pid,
        "evidence_file": "/verif/evidence/%s.json" % pid,
        "replay_cmd_template": "bin/check --replay {path}",
        "engine": "govc",
        "level_claimed": {"category": "proof", "text": p["level_text"], "design_ref": p.get("design_ref", "DESIGN.md §8")},
        "level_note": p["level_note"],
        "technique": "contract-based deductive verification: pre/postconditions, loop invariants and call-site assertions on the real functions (go/ssa of /repo), VCs by symbolic execution with loop cut points, discharged by z3 5.1.0 / cvc5 1.0.3 / z3 4.8.12",
    })
napp = []
for pid in ids:
    if pid in [c["property_id"] for c in checks]:
        continue
    napp.append({"property_id": pid, "reason": na.get(pid, "not built yet: no contract within reach decides it so far (see DESIGN.md §12)")})
m = {
    "version": 1,
    "setup_cmd": "cd /verif && %s go build -o bin/govc ./cmd/govc" % ENV,
    "hooks": {
        "guard": "verif",
        "enable": "contracts are comment-only files <pkg>/zz_contracts_verif.go behind //go:build verif; govc reads their //@ lines from /repo's working tree (go build -tags verif compiles them to nothing)",
        "baseline_off_cmd": "cd /repo && %s go test -vet=off -count=1 -timeout 25m ./..." % ENV,
        "source_commits": hooks,
        "add_only": True,
    },
    "engines": [{"name": "govc", "path": "/verif/cmd/govc", "serves_properties": [c["property_id"] for c in checks],
                 "kind_free_text": "VC generator over go/ssa (naive form) of the real packages + contract files; SMT back ends z3-new, cvc5, z3"}],
    "checks": checks,
    "not_applicable": napp,
    "notes": "Exit codes of bin/check: 0 pass, 1 VIOLATION, 2 UNDECIDED (contract no longer resolves against the code / unsupported construct), 3 machinery broken. Known findings: /verif/known_findings.json.",
}
json.dump(m, open(os.path.join(V, "MANIFEST.json"), "w"), indent=1)
print("checks:", [c["property_id"] for c in checks], "n/a:", [n["property_id"] for n in napp])
