#!/usr/bin/env python3
# tools/seedmatrix.py -- rewrites the table between the SEEDMATRIX markers of DESIGN.md from seeded/*/meta.json
# (written by tools/seedrun.py): one row per seeded change: what it changes, what it needs, which checks
# report it and through which obligation.
import json, glob, os, re
V = os.path.dirname(os.path.dirname(os.path.abspath(__file__)))
rows = []
def key(d):
    b = os.path.basename(d); p, n = b.split('-'); return (p, int(n))
for d in sorted(glob.glob(os.path.join(V, 'seeded', 'C*-*')), key=key):
    sid = os.path.basename(d)
    m = json.load(open(os.path.join(d, 'meta.json')))
    patch = open(os.path.join(d, 'patch.diff')).read()
    files = sorted(set(re.findall(r'^\+\+\+ b/(.*)$', patch, re.M)))
    summ = (m.get('summary') or '').strip().replace('\n', ' ').replace('|', '/')
    if len(summ) > 230:
        summ = summ[:227].rsplit(' ', 1)[0] + ' ...'
    det = m.get('detected_by', [])
    prop = sid.split('-')[0]
    first = ''
    checks = m.get('checks', {})
    order = ([prop] if prop in det else []) + [p for p in det if p != prop]
    for p in order:
        ob = checks.get(p, {}).get('obligations', [])
        if ob:
            first = ob[0]
            break
    own = 'yes' if prop in det else ('**no**' if not det else 'other')
    rows.append('| %s | %s | %s | %s | %s | %s |' % (sid, ', '.join(files), summ, own, ' '.join(det) if det else '**none**', ('`%s`' % first) if first else ''))
table = ['| seed | file | change | own check | reported by | first obligation |', '|---|---|---|---|---|---|'] + rows
p = os.path.join(V, 'DESIGN.md')
s = open(p).read()
a, b = '<!-- SEEDMATRIX:BEGIN -->', '<!-- SEEDMATRIX:END -->'
if a in s and b in s:
    s = s[:s.index(a) + len(a)] + '\n' + '\n'.join(table) + '\n' + s[s.index(b):]
    open(p, 'w').write(s)
n = len(rows); own = sum(1 for r in rows if '| yes |' in r); anyd = sum(1 for r in rows if '**none**' not in r)
print('seeds=%d reported-by-own-check=%d reported-by-some-check=%d' % (n, own, anyd))
