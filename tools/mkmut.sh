#!/bin/sh
# tools/mkmut.sh <name> <file relative to repo> <python-replace: OLD> <NEW>   -- builds selftest/mutants/<name>.patch from /repo HEAD in a scratch copy
name=$1; file=$2; old=$3; new=$4
tmp=$(mktemp -d /tmp/govc-mk.XXXXXX); trap 'rm -rf "$tmp"' EXIT
cp -a /repo/. "$tmp/"; cd "$tmp" && git checkout -q -- . 
python3 - "$file" "$old" "$new" <<'PY' || exit 1
import sys
f,old,new=sys.argv[1:4]
s=open(f).read()
if s.count(old)!=1:
    print("mkmut: pattern occurs %d times in %s"%(s.count(old),f)); sys.exit(1)
open(f,'w').write(s.replace(old,new))
PY
export PATH=/opt/veriftools/go1.26.8/bin:$PATH GOTOOLCHAIN=local GOFLAGS=-mod=mod GOPROXY=off GOSUMDB=off
go build ./... || { echo "mkmut: does not compile"; exit 1; }
git diff > /verif/selftest/mutants/$name.patch && echo "wrote selftest/mutants/$name.patch ($(wc -l < /verif/selftest/mutants/$name.patch) lines)"
