#!/usr/bin/env python3
# tools/covtable.py -- rewrites the table between the COVTABLE markers of DESIGN.md from props/*.json and
# evidence/*.json: what each check covers now (functions under contract, obligations, residual).
import json, glob, os
V = os.path.dirname(os.path.dirname(os.path.abspath(__file__)))
rows = []
for f in sorted(glob.glob(os.path.join(V, 'props', 'C*.json'))):
    p = json.load(open(f))
    pid = p['property']
    ev = {}
    try:
        ev = json.load(open(os.path.join(V, 'evidence', pid + '.json')))
    except Exception:
        pass
    cov = ev.get('coverage', {})
    fns = p['functions']
    short = ', '.join(x.replace('(*', '').replace(')', '') for x in fns)
    bc = cov.get('block_coverage', {})
    rows.append('| %s | %d | %s | %s | %s | %s | %s |' % (pid, len(fns), cov.get('obligations', '?'), cov.get('obligation_instances', '?'),
        ('%s/%s' % (bc.get('entered', '?'), bc.get('blocks', '?'))) if bc else '?', short, (p.get('residual') or '').replace('|', '/')))
table = ['| property | functions | obligations | path instances | blocks entered | functions under contract | residual (not decided) |', '|---|---|---|---|---|---|---|'] + rows
p = os.path.join(V, 'DESIGN.md')
s = open(p).read()
a, b = '<!-- COVTABLE:BEGIN -->', '<!-- COVTABLE:END -->'
if a in s and b in s:
    s = s[:s.index(a) + len(a)] + '\n' + '\n'.join(table) + '\n' + s[s.index(b):]
    open(p, 'w').write(s)
print('\n'.join(r[:120] for r in rows))
