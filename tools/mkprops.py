#!/usr/bin/env python3
"""Writes /verif/props/Cxx.json: which functions under contract, and which of their labelled clauses,
carry each property. A function may serve several properties; labels=None means every clause."""
import json, os
V = os.path.dirname(os.path.dirname(os.path.abspath(__file__)))
S = "(*stage.Stage)."
NOTE = ("A1 sequential semantics (no interleaving inside a verified function; locks are no-ops but lock discipline is asserted as ordering), "
        "A2 mathematical integers, A4 trusted contracts for library calls and for the callees listed in the evidence trusted_base, "
        "A5 logging has no effect, A8 getters behind sts interfaces are stable, contracts themselves are the specification")
P = {}
def prop(pid, text, residual, funcs, design="DESIGN.md §8 " ):
    P[pid] = dict(property=pid, functions=list(funcs.keys()),
                  labels={f: l for f, l in funcs.items() if l is not None},
                  residual=residual, design_ref=design + pid, level_text=text, level_note=NOTE + "; residual (not decided): " + residual)

prop("C01", "Unbounded proof, per function and for all inputs and paths, that every route by which a staged body changes extension or leaves the stage passes the hash check: rename to .wait, state validated and the hand-over to finalization only under MD5(.full) == announced hash; mismatch or MD5 error => state failed, no rename; the move into the final directory only for a file whose cached state is validated, moving the .wait body to Join(targetDir, renamed|name); a new announced hash discards the recorded ranges; the move is rename-or-copy into a temporary that is swapped in, the fallback copy writes into an emptied destination; the sender announces a file under exactly its path below the root",
     "interleavings of goroutines; MD5 and the OS (trusted); composition of the per-function facts into the end-to-end statement is a paper argument (DESIGN.md §8 C01); sender-side re-hash",
     {S+"process": ["ignore-unless-received", "hashes-the-full-body", "validated-needs-hash-match", "renames-full-to-wait", "caches-this-file", "mismatch-fails", "rename-failure-fails", "validated-is-queued"],
      S+"finalize": ["only-validated", "under-path-lock"],
      S+"putFileAway": ["moves-wait-body", "finalized-after-move", "error-means-not-finalized", "ok-means-finalized"],
      "stage.newLocalCompanion": None,
      S+"GetFileStatus": None,
      S+"Receive": ["record-before-rename", "received-after-rename", "caches-received-or-failed", "validates-what-was-received", "complete-is-queued"],
      "fileutil.Copy": None, "fileutil.Move": None, "(*store.Local).getRelPath": None})
prop("C04", "Unbounded proof of the receiver's ordering gate: a file is finalized only if its predecessor is delivered (finalized/logged, or found in the receive log), otherwise it is parked on the predecessor; waiters are released only after the predecessor was put away, each exactly as returned by the wait map; the receive-log record precedes the move; the order is given up only when the wait graph search found a back reference",
     "timers and the cleaner run concurrently (A1); cycle detection itself is only checked for 'a reported loop contains a back reference'; sender-side chain is C10",
     {S+"isFileReady": None, S+"finalizeHandler": None,
      S+"finalize": ["releases-after-delivery", "releases-own-waiters", "releases-waiters", "failure-releases-nothing", "each-waiter-queued"],
      S+"putFileAway": ["log-before-move"],
      S+"fromWait": None, S+"detectWaitLoop": None, S+"cleanWaiting": None})
prop("C05", "Unbounded proof of the duplicate-handling guards: a complete duplicate of a known (not failed) version with the same hash is discarded and never renamed, cached or queued again; exactly one receive-log record per put-away; a part of a known version is answered 'already received' without touching the stage; ageing of the in-memory delivery record drops only delivered, aged entries, and the watermark from which the record counts as complete is only ever lowered to the logged time of an entry that stays",
     "completeness of the in-memory record above the watermark as a data-structure invariant (only the per-pass discipline of cleanCache is proved), log refill window, interleavings (A1)",
     {S+"Receive": ["complete-duplicate-ignored", "duplicate-check-under-lock", "duplicate-body-removed", "companion-removed-only-when-finalized", "removes-only-own-files", "caches-received-or-failed"],
      S+"process": ["ignore-unless-received", "caches-this-file"],
      S+"finalize": ["only-validated"],
      S+"putFileAway": ["one-record-per-call", "finalized-after-move"],
      S+"partReceived": ["known-file-answers-yes", "yes-needs-record-or-known-file"],
      S+"cleanCache": None})
prop("C06", "Unbounded proof of the write-ahead orderings inside each receiver function that the crash argument rests on: data written and closed before the companion records it, companion written before the rename to .full, receive-log record before the move, state finalized and companion removal only after a successful move (narrow claim: no crash image is enumerated)",
     "the crash-point quantifier itself: no crash image is enumerated, only the ordering discipline is proved; Recover's case analysis and fileutil.Move are listed in the evidence when under contract",
     {S+"Receive": ["data-before-record", "record-before-rename", "copy-error-is-reported", "record-error-is-reported", "completeness-of-written-record", "copies-into-the-partial", "companion-removed-only-when-finalized", "duplicate-body-removed"],
      "stage.newLocalCompanion": None,
      S+"putFileAway": ["log-before-move", "finalized-after-move", "companion-removed-last"]})
prop("C08", "Unbounded proof on the receiver side that the answer to 'how many of these parts did you receive' counts exactly the leading parts that are on record and stops at the first missing one",
     "sender side (split at the acknowledged count, tracker) not yet under contract; several sender threads; HTTP transport",
     {S+"Received": None})
prop("C09", "Unbounded proof (all inputs, all loop iterations) that the real range-record helpers keep the receiver's record sound against a set-of-bytes specification, that Receive writes at the announced offset of the partial file, records exactly the announced range after the data was written, and keeps the read-modify-write of the companion under the exclusive per-file lock; one known finding (partial-overlap replacement drops acknowledged bytes) recorded with its input region",
     "concurrent receptions are covered only as lock discipline (A1); payload part reader (C13)",
     {"stage.addCompanionPart": None, "stage.companionPartExists": None, "stage.isCompanionComplete": None,
      S+"Receive": ["opens-the-partial", "writes-at-announced-offset", "copies-into-the-partial", "data-before-record", "record-under-lock", "records-announced-range", "completeness-of-written-record", "one-part-only"],
      "stage.newLocalCompanion": None,
      S+"partReceived": ["yes-needs-record-or-known-file", "reads-own-companion", "same-version-only"]})
prop("C20", "Unbounded proof that the clean-up removes a stray partial only when the file is delivered (finalized/logged in memory with the companion's hash, or found in the receive log with the companion's hash), only .part files older than the threshold, the companion only together with its partial, and only directories that are empty and were old enough when collected; the Walk callbacks are verified in the context of their parents with arbitrary state between invocations",
     "concurrency with running transfers (A1); file system semantics (trusted)",
     {S+"cleanStrays": None, S+"pruneTree": None})

B = "(*client.Broker)."
prop("C02", "Unbounded proof of the guards on releasing source files: the cache entry is marked done and the file removed only under a positive poll verdict (waiting/received) and the tag's delete policy (delete flag, delete delay against the clock); negative verdicts are retried; the scan clean-up removes only entries that are done and deletable; NotFound gives up only at the configured attempt count; start-up recovery finishes only positively answered files; the receiver's verdict codes map only from validated/finalized/logged",
     "interleaving of scan / validator / retry goroutines (A1); the cache implementation (cache.JSON) and the HTTP mapping of verdict codes when not yet under contract; 'done means this version' across re-adds",
     {B+"getTag": None, B+"canDelete": None, B+"finish": None,
      B+"scan": None, B+"startValidate": None,
      B+"recover": ["finish-needs-positive", "finish-answers-of-this-poll", "sent-logged-once"],
      B+"recover$1": ["polls-unchanged-files-only", "resumes-unchanged-files-only", "gone-files-only"],
      B+"startTrack": ["accounting", "tracks-the-announced-size", "polled-needs-all-bytes"],
      S+"GetFileStatus": None})
prop("C07", "Unbounded proof of the resume arithmetic and dispatch of the sender's start-up recovery: the byte ranges queued for a partly received file are non-empty, ascending, disjoint from every range the receiver reported and cover every unreported byte of [0,size); NotFound files are re-queued whole, failed ones whole with their announced predecessor, positively answered ones are finished and queued as fully allocated placeholders; only unchanged, undone files are polled or resumed (narrow claim: no crash point is enumerated)",
     "the crash-point quantifier, stale caches, repeated crashes; the receiver's report is assumed well-formed and within the file (proved on the receiver side as wf-preserved); sort.Sort trusted",
     {B+"recover": None, B+"recover$1": None,
      "(*client.recoverFile).Allocate": None, "(*client.recoverFile).IsAllocated": None, "(*client.recoverFile).GetSendSize": None, "(*client.recoverFile).GetPrev": None,
      "(*queue.sortedFile).getPrevName": ["recovered-keeps-own-prev"]})
prop("C08", "Unbounded proof that only acknowledged parts count as sent: the payload is split exactly at the acknowledged count (from the answer or from the recovery request), only the acknowledged head is forwarded to the tracker and only the remainder is retried; a payload is forwarded only after an error-free transmission; the tracker adds exactly the slice length per part (reset on a new hash), logs 'sent' and polls only when every byte was acknowledged; the receiver counts exactly the leading recorded parts",
     "several sender threads in flight (A1); HTTP transport (Transmit / RecoverTransmission trusted)",
     {B+"handleSendError": None,
      B+"startSend": ["forward-needs-ack", "recovery-of-the-failed-payload", "retry-keeps-remainder"],
      B+"startTrack": None,
      "(*payload.Bin).Split": None,
      S+"Received": None})
prop("C10", "Unbounded proof of the per-call rules of the queue's emission: a chunk never names itself, unordered tags announce no predecessor, ordered ones announce the name returned for the chain predecessor (recovered files keep their own), the slice is exactly what the allocator returned, a placeholder skipped at the head stays the predecessor of the file behind it (under local list consistency); unordered tags drop the predecessor in the binnable; the list surgery on files (unlink, insert before/behind) joins the neighbours and links the node where asked (pointer postconditions under linearity hypotheses)",
     "global acyclicity of the predecessor relation over Push/Pop histories; that the group list is sorted is a history invariant (per call: the new file goes where the binary search with the order predicate says and the others keep their relative order in front of it; the shift of the files behind it is not discharged); sort.Search trusted (result within [0,n], predicate run in the caller's context); same name queued twice concurrently",
     {"(*queue.Tagged).Pop": ["no-self-reference", "unordered-has-no-prev", "prev-is-chain-predecessor", "slice-from-allocate", "allocates-unallocated-only", "placeholder-stays-predecessor"],
      "(*queue.sortedFile).getPrevName": None,
      "(*client.binnable).GetPrev": None,
      "(*client.recoverFile).GetPrev": None,
      "(*queue.sortedFile).unlink": None, "(*queue.sortedFile).insertAfter": None, "(*queue.sortedFile).insertBefore": None})
prop("C11", "Unbounded proof of the cursor contracts that make chunks and parts tile a file: each allocator returns exactly [old cursor, new cursor), non-empty, within the limit and inside the object (plain files, resumed files with their missing ranges, the binnable's slice cursor); Bin.Add places exactly the next unallocated bytes up to the room left (capacity + 10% slack), never exceeds the allowance, refuses only when nothing fits; a bin without room reports full; Split keeps head and tail and their byte counts (running sum proved); the ranges queued for a resumed file are the complement of the reported ones",
     "float rounding above 2^53 bytes (A3); the telescoping of the per-call contracts into 'exact tiling' is a paper step; data-structure invariant 0 <= allocated <= size assumed at Pop",
     {"(*queue.sortedFile).allocate": None, "(*queue.sortedFile).isAllocated": None, "(*queue.sortedFile).getSendSize": None,
      "(*client.recoverFile).Allocate": None, "(*client.recoverFile).IsAllocated": None, "(*client.recoverFile).GetSendSize": None,
      "(*client.binnable).GetNextAlloc": None, "(*client.binnable).AddAlloc": None, "(*client.binnable).IsAllocated": None,
      "payload.NewBin": None, "(*payload.Bin).IsFull": None, "(*payload.Bin).GetSize": None, "(*payload.Bin).Add": None, "(*payload.Bin).Split": None, "(*payload.Bin).Remove": None,
      B+"startBin": None,
      B+"recover$1": ["0", "frame-reported-ranges", "processed-below-cursor", "missing-wellformed", "only-missing", "nothing-forgotten", "resumed-ranges-wellformed", "resumed-only-missing", "resumed-nothing-forgotten", "resumed-carries-ranges"],
      "(*queue.Tagged).Pop": ["slice-from-allocate", "allocates-unallocated-only"]})
prop("C12", "Unbounded proof of the local rules of group rotation: the served group is moved directly behind the last group of the maximal run of equal priority (pointer postconditions under non-aliasing), the head pointer follows, exactly the group whose file is emitted is rotated, and the scan moves past a group only when it has nothing ready; a new group is linked in front of the first group of lower priority or behind the last group, and becomes the head exactly when it outranks the head; the list surgery on groups and files is proved on its own",
     "sortedness of the group list by priority over addGroup/delayGroup histories and the bounded-bypass theorem are paper arguments",
     {"(*queue.Tagged).delayGroup": None,
      "(*queue.Tagged).Pop": ["emits-a-file-of-the-served-group", "rotates-served-group", "skips-only-unready-groups", "skipped-groups-are-not-rotated"],
      "(*queue.Tagged).addGroup": None,
      "(*queue.sortedGroup).addAfter": None, "(*queue.sortedGroup).addBefore": None, "(*queue.sortedGroup).insertAfter": None,
      "(*queue.sortedFile).unlink": None, "(*queue.sortedFile).insertAfter": None, "(*queue.sortedFile).insertBefore": None})
prop("C17", "Unbounded proof of the sender-side eligibility rules that are code in package client: a scanned file is taken iff it is not empty and is new or changed in size or time relative to the cache; changed files are dropped from a payload being retried and never re-sent by the retry loop; start-up recovery polls or resumes only unchanged files",
     "the directory walk and pattern rules of store.Local when not yet under contract; histories of scans; regexp engine",
     {B+"includeScannedFile": None,
      B+"startSend": ["changed-files-dropped", "unchanged-files-kept"],
      B+"startRetry": None,
      B+"recover$1": ["polls-unchanged-files-only", "resumes-unchanged-files-only"]})
H = "(*http.Server)."
prop("C13", "Unbounded proof of the framing of the payload wire format: the header carries one descriptor per part, in order, with exactly the part's name, rename, predecessor, hash, time, size, send size and byte range (loop invariant); the encoder reads at most what is left of the current part from the part's file opened at the part's offset and moves to the next part exactly at its end, in header order; the part reader never yields a byte beyond the announced length and reports EOF exactly there; the decoder hands out part readers over the shared stream in descriptor order; the data route pairs the k-th reader with the k-th descriptor, refuses an index beyond the header and a malformed header length",
     "gzip, JSON encoding and HTTP transport are libraries (trusted); path-separator re-joining is a library call; truncated bodies are covered as 'reader returns fewer bytes => error => 206'",
     {"(*payload.Bin).EncodeHeader": None, "(*payload.Encoder).startNextPart": None, "(*payload.Encoder).Read": None,
      "(*payload.PartDecoder).Read": None, "(*payload.Decoder).Next": None, "(*payload.Decoder).GetParts": None,
      H+"routeData": ["bad-header-length-is-refused", "prepares-the-announced-parts", "index-in-range", "part-k-with-reader-k", "complete-only-at-the-end", "partial-answer-after-a-failed-part", "partcount-is-receive-count"]})
prop("C14", "Unbounded proof of the path discipline: part names and rename targets taken from a request are refused unless they are local paths (loop invariant over the decoded descriptors, against the uninterpreted predicate local = filepath.IsLocal); the source names '.', '..' and '' never reach the gatekeeper factory, and the factory builds the stage, final and log roots from the source name with every separator replaced; every file-system effect of the stage takes Join(root, announced name) (+ a fixed extension); the static route touches files only through the rooted handle os.Root, only after both sanitisers accepted, and never through path-based os calls",
     "semantics of filepath.Join / filepath.IsLocal / os.Root (trusted); sanitizeRelativePath's own loop over segments is trusted (covered by the existing tests only); the composition decoder -> route -> stage is a paper step",
     {"payload.NewDecoder": None, H+"getGateKeeper": None, H+"routeFile": None, "http.sanitizePathSegment": None, "http.rootRelativePath": None,
      H+"routeData": ["part-k-with-reader-k", "prepares-the-announced-parts"],
      S+"Receive": ["opens-the-partial", "removes-only-own-files", "record-before-rename"],
      S+"Prepare": None,
      S+"putFileAway": ["moves-wait-body"],
      S+"partReceived": ["reads-own-companion", "same-version-only"],
      S+"cleanStrays": ["only-part-files"], "(*main.serverApp).init$3": None})
prop("C15", "Unbounded proof that a request reaches a route only after the source has a gatekeeper, the gatekeeper is ready and the validator accepted source and key (with the matching refusal codes and nothing written before); every route that reaches a gatekeeper or the serve directory is registered behind that guard; the standard validator accepts exactly listed sources (matching the name pattern) and listed keys (index search proved with a loop invariant); recovery keeps the gatekeeper not ready for its whole duration, and the validation of recovered files happens inside that window (synchronously in workers that Recover waits for)",
     "the race between 'go stager.Recover()' at start-up and the first request (schedule-dependent, A1); the Postgres validator; that stage.New has no file-system effect is not yet under contract",
     {H+"handleValidate$1": None, H+"Serve": None, "main.strToIndex": None, "(*main.serverApp).standardValidator": None,
      S+"Recover": ["not-ready-for-duration", "validation-ends-before-ready"], S+"Recover$2": ["validation-ends-before-ready"], S+"setCanReceive": None, S+"Ready": None})
L = "(*log.FileIO)."
prop("C18", "Unbounded proof of the transfer-log look-up: a day file answers yes only for a line that starts with exactly the name followed by the separator and carries ':hash:' behind it, and such a line always answers yes (string theory); the look-up asks for exactly name and hash; the window is walked in one-day steps from start until the cursor has passed the stop, forward and backward, and an empty window opens nothing; the records are written name-first with ':' separators; the log file is synced when required",
     "local-time / DST day arithmetic (24 h days assumed); concurrent writers (single writer goroutine, A1); Parse splits on ':' so names containing the separator shift the fields (not under contract: strings.Split is not modelled)",
     {"(*log.rollingFile).each": None, "(*log.rollingFile).search": None, "(*log.rollingFile).eachLine": None, "(*log.rollingFile).eachLine$1": None, L+"wasWritten": None, L+"WasReceived": None, L+"WasSent": None, L+"Received": None, L+"Sent": None, "(*log.rollingFile).log": None})
# C02: cache and verdict codes; C17: store
P["C02"]["functions"] += ["(*cache.cacheFile).IsDone", "(*cache.JSON).Get", "(*cache.JSON).add", "(*cache.JSON).Done", "(*cache.JSON).Remove", "(*http.confirmed).NotFound", "(*http.confirmed).Waiting", "(*http.confirmed).Failed", "(*http.confirmed).Received", H+"routeValidate"]
for _p in ("C02", "C07", "C17"):
    P[_p]["functions"] += ["(*store.Local).Sync"]
P["C17"]["functions"] += ["(*store.Local).shouldIgnore", "(*store.Local).handleNode", "(*store.Local).Scan", "(*cache.JSON).add"]
P["C06"]["functions"] += ["fileutil.writeJSON", "fileutil.Move", "(*log.rollingFile).log"]
P["C06"]["labels"]["(*log.rollingFile).log"] = ["sync-when-required", "rotated-first"]
P["C07"]["functions"] += ["fileutil.writeJSON"]
P["C01"]["functions"] += ["fileutil.Move"]
P["C08"]["functions"] += [H+"routeData", H+"routeDataRecovery", "(*http.Client).Transmit"]
P["C08"]["labels"][H+"routeData"] = ["partial-answer-after-a-failed-part", "partcount-is-receive-count", "complete-only-at-the-end"]
P["C09"]["functions"] += ["(*payload.PartDecoder).Read"]

# additions to the receiver-side properties
P["C01"]["functions"] += [S+"Recover", S+"Recover$2"]
P["C01"]["labels"][S+"Recover"] = ["recovered-wait-bodies-are-validated", "no-direct-finalize", "no-direct-delivery", "only-complete-partials-are-renamed"]
P["C05"]["functions"] += [S+"initStageFile", S+"Prepare", S+"buildCache"]
P["C01"]["functions"] += [S+"buildCache"]
P["C01"]["labels"][S+"buildCache"] = ["log-refill-never-overwrites"]
P["C06"]["functions"] += [S+"Recover"]
P["C06"]["labels"][S+"Recover"] = ["wait-body-is-finalized", "full-or-complete-is-validated", "only-complete-partials-are-renamed", "orphan-companion-only", "not-ready-for-duration"]
P["C04"]["functions"] += [B+"startRetry", "(*queue.Tagged).Pop"]
P["C04"]["labels"][B+"startRetry"] = ["resend-keeps-prev"]
P["C04"]["labels"]["(*queue.Tagged).Pop"] = ["placeholder-stays-predecessor", "prev-is-chain-predecessor", "no-self-reference"]

# round 2 (third batch of seeded changes): functions the properties also rest on
def _add(pid, fn, labels=None):
    if fn not in P[pid]["functions"]:
        P[pid]["functions"].append(fn)
    if labels is not None:
        cur = P[pid]["labels"].get(fn)
        if fn in P[pid]["labels"] and cur is not None:
            P[pid]["labels"][fn] = sorted(set(cur) | set(labels))
        elif fn not in P[pid]["labels"] and fn in P[pid]["functions"][:-1]:
            pass  # already claimed with all its labels
        else:
            P[pid]["labels"][fn] = labels
for _p in ("C13", "C17"):
    _add(_p, "(*marshal.NanoTime).UnmarshalJSON")
_add("C13", "(marshal.NanoTime).MarshalJSON")
_add("C13", "payload.NewDecoder$1")
_add("C15", "(*main.serverApp).init")
_add("C02", S+"buildCache", ["log-refill-never-overwrites"])
_add("C04", S+"buildCache", ["log-refill-never-overwrites"])
_add("C04", S+"putFileAway", ["finalized-after-move", "error-means-not-finalized", "log-before-move"])
for _p in ("C05", "C06"):
    _add(_p, "(*log.rollingFile).each")
    _add(_p, "(*log.rollingFile).eachLine")
    _add(_p, "(*log.rollingFile).eachLine$1")
_add("C07", "(*queue.Tagged).Pop", ["placeholder-stays-predecessor", "prev-is-chain-predecessor"])
_add("C07", "(*client.recoverFile).Allocate")
_add("C09", S+"initStageFile")
_add("C09", S+"Prepare")
_add("C20", S+"Receive", ["companion-removed-only-when-finalized", "duplicate-body-removed", "removes-only-own-files"])
_add("C20", S+"Recover", ["orphan-companion-only", "only-complete-partials-are-renamed"])
_add("C06", S+"Receive", ["companion-removed-only-when-finalized"])
_add("C06", "stage.newLocalCompanion")

# round 3 (fourth batch of seeded changes)
for _p in ("C10", "C11"):
    _add(_p, "(*queue.Tagged).Push")
_add("C10", B+"recover", ["resumed-file-keeps-its-announced-predecessor", "failed-is-resent-whole", "notfound-is-requeued-whole"])
for _p in ("C06", "C20"):
    _add(_p, S+"pathToName")
_add("C05", S+"Recover", ["delivery-record-reaches-back-the-retention", "not-ready-for-duration"])
for _f in ("(*cache.JSON).Persist", "(*cache.JSON).add", "(*cache.JSON).Reset", "(*cache.JSON).Done", "(*cache.JSON).Remove"):
    _add("C07", _f)
_add("C17", "(*cache.JSON).Persist")
_add("C17", B+"scan", ["nothing-queued-unless-the-cache-was-written", "remove-needs-done-and-policy", "scan-never-marks-done"])
_add("C13", "(*http.Client).Transmit")
_add("C17", "(*store.Local).ShouldIgnore")
for _f in ("(*log.FileIO).Parse$1", "(*log.FileIO).Parse", "(*log.rollingFile).getCurrPath"):
    _add("C18", _f)
_add("C15", "stage.New")
for _p in ("C20", "C05"):
    for _f in ("(*log.rollingFile).search", "(*log.FileIO).wasWritten", "(*log.FileIO).WasReceived", "(*log.rollingFile).each", "(*log.rollingFile).eachLine", "(*log.rollingFile).eachLine$1"):
        _add(_p, _f)
_add("C14", S+"isFileReady", ["predecessor-name-never-reaches-the-file-system"])
_add("C02", B+"startRetry", ["gone-files-only", "changed-not-resent"])

# round 5 (fifth batch)
_add("C05", S+"partReceived", ["delivery-record-reaches-back-to-the-part", "known-file-answers-yes", "yes-needs-record-or-known-file"])
_add("C08", S+"partReceived", ["delivery-record-reaches-back-to-the-part"])
for _p in ("C06", "C04"):
    _add(_p, S+"toWait")
_add("C08", "(*payload.Bin).GetParts")
_add("C08", B+"startSend", ["acknowledged-count-applied-before-parts-move", "forwards-acknowledged-head", "forward-needs-ack", "recovery-of-the-failed-payload", "changed-files-dropped"])
_add("C13", "(*payload.Bin).EncodeHeader")
_add("C18", "(*log.rollingFile).rotate")
for _f in (S+"clean", S+"CleanNow"):
    _add("C20", _f)
for _f in ("(*queue.Tagged).addFile$1", "(*queue.Tagged).addFile$2"):
    _add("C10", _f)
    _add("C12", _f)
_add("C11", "(*main.clientApp).init", ["every-tag-gets-a-chunk-limit"])
_add("C12", "(*main.clientApp).init", ["every-tag-gets-a-chunk-limit"])
_add("C12", "(*main.clientApp).init$3")
_add("C14", "sts.InitPaths")
_add("C07", B+"recover", ["complete-recovery-reports-no-error", "finish-needs-positive", "finish-answers-of-this-poll", "notfound-is-requeued-whole", "failed-is-resent-whole", "resumed-file-keeps-its-announced-predecessor"])
_add("C07", "(*store.Local).ShouldIgnore")
_add("C04", "(*log.rollingFile).search")
_add("C04", "(*log.FileIO).wasWritten")
_add("C06", S+"buildCache", ["log-refill-never-overwrites", "refill-window", "window-is-recorded"])
_add("C09", S+"Received")
_add("C13", "(*http.Server).routeData")
_add("C13", "payload.NewDecoder", ["name-and-predecessor-of-every-part-are-converted", "malformed-header-is-refused"])
# round 6 (sixth batch)
_add("C05", S+"cleanStrays", ["log-is-searched-back-sixty-times-the-age", "delete-needs-delivered-same-hash", "reads-companion-of-the-partial"])
_add("C15", "(*control.Postgres).IsValid")
_add("C15", H+"getGateKeeper")
_add("C20", H+"routeInternal")
_add("C14", H+"handleValidate$1")
_add("C14", "(*main.serverApp).standardValidator")
_add("C14", "main.strToIndex")
_add("C11", S+"Received")
_add("C11", "(*payload.Encoder).startNextPart", ["every-part-is-opened-and-positioned", "next-part-in-header-order", "seeks-to-the-part-start", "opens-the-part-file"])
P["C08"]["labels"][H+"routeData"] = sorted(set(P["C08"]["labels"].get(H+"routeData") or []) | {"one-part-count-per-answer", "part-k-with-reader-k"})
_add("C08", S+"partReceived", ["yes-needs-record-or-known-file", "known-file-answers-yes", "same-version-only"])
_add("C09", H+"routeData", ["part-k-with-reader-k", "index-in-range", "partcount-is-receive-count"])
_add("C10", "(*main.clientApp).init$3")
_add("C10", B+"startRetry", ["resend-keeps-prev"])
_add("C05", "(*main.serverApp).init")
_add("C06", S+"partReceived", ["yes-needs-record-or-known-file", "known-file-answers-yes", "same-version-only", "delivery-record-reaches-back-to-the-part"])
_add("C07", B+"startTrack")
_add("C01", S+"cleanWaiting")
for _p in ("C07", "C04"):
    _add(_p, S+"Scan")
_add("C04", "stage.newLocalCompanion")
_add("C12", "(*queue.Tagged).getGroup")
_add("C12", "(*queue.Tagged).Push")
_add("C06", "(*log.rollingFile).rotate")
_add("C05", "(*log.rollingFile).rotate")
# round 4: seeds that only the check of another property reported
_add("C02", S+"partReceived", ["same-version-only", "known-file-answers-yes", "yes-needs-record-or-known-file"])
_add("C04", "(*queue.sortedFile).getPrevName")
_add("C06", S+"Recover", ["recovered-wait-bodies-are-validated", "no-direct-finalize", "no-direct-delivery"])
_add("C09", S+"cleanStrays")
_add("C20", S+"initStageFile")
# round 7: the sorted insertion itself
for _p in ("C10", "C12"):
    _add(_p, "(*queue.Tagged).addFile")
# round 7: seeds that only the check of another property reported
_add("C01", H+"handleValidate$1", ["forward-needs-all-three", "status-codes"])
_add("C01", S+"putFileAway", ["log-before-move", "one-record-per-call"])
_add("C02", "(*http.Client).Transmit")
_add("C02", "fileutil.Move")
_add("C04", "(*payload.Bin).EncodeHeader")
_add("C06", S+"GetFileStatus")
_add("C08", S+"Receive", ["data-before-record", "record-under-lock"])
_add("C08", "(*store.Local).Sync")
_add("C09", S+"Recover", ["orphan-companion-only", "only-complete-partials-are-renamed"])
_add("C11", "(*http.Client).Transmit")
_add("C11", S+"partReceived", ["yes-needs-record-or-known-file", "same-version-only"])
_add("C15", "(*main.serverApp).init$3", ["log-root-from-escaped-source", "roots-from-escaped-source"])
_add("C10", "(*sts.ClientConf).propagate")
_add("C12", "(*sts.ClientConf).propagate")
_add("C10", "(*main.clientApp).init", ["order-default-is-written-back"])
_add("C04", S+"Recover", ["validated-bodies-are-queued-before-revalidation-starts", "recovered-wait-bodies-are-validated"])
_add("C07", H+"routeValidate")
_add("C05", B+"recover$1", ["poll-looks-back-to-the-file-time", "polls-unchanged-files-only"])
_add("C07", "stage.ReadCompanions")
_add("C20", "stage.upgradeCompanion")
_add("C09", "stage.upgradeCompanion")
_add("C20", S+"putFileAway", ["target-directory-made-after-the-record", "log-before-move", "finalized-after-move"])

os.makedirs(os.path.join(V, "props"), exist_ok=True)
for pid, p in P.items():
    json.dump(p, open(os.path.join(V, "props", pid + ".json"), "w"), indent=1)
if os.environ.get("DEV"):
    json.dump(dict(property="DEV", functions=os.environ["DEV"].split(","), claimed=False), open(os.path.join(V, "props", "DEV.json"), "w"))
print("props:", sorted(P))
