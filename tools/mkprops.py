#!/usr/bin/env python3
"""Writes /verif/props/Cxx.json: which functions under contract, and which of their labelled clauses,
carry each property. A function may serve several properties; labels=None means every clause."""
import json, os
V = os.path.dirname(os.path.dirname(os.path.abspath(__file__)))
S = "(*stage.Stage)."
NOTE = ("A1 sequential semantics (no interleaving inside a verified function; locks are no-ops but lock discipline is asserted as ordering), "
        "A2 mathematical integers, A4 trusted contracts for library calls and for the callees listed in the evidence trusted_base, "
        "A5 logging has no effect, A8 getters behind sts interfaces are stable, contracts themselves are the specification")
P = {}
def prop(pid, text, residual, funcs, design="DESIGN.md §8 " ):
    P[pid] = dict(property=pid, functions=list(funcs.keys()),
                  labels={f: l for f, l in funcs.items() if l is not None},
                  residual=residual, design_ref=design + pid, level_text=text, level_note=NOTE + "; residual (not decided): " + residual)

prop("C01", "Unbounded proof, per function and for all inputs and paths, that every route by which a staged body changes extension or leaves the stage passes the hash check: rename to .wait, state validated and the hand-over to finalization only under MD5(.full) == announced hash; mismatch or MD5 error => state failed, no rename; the move into the final directory only for a file whose cached state is validated, moving the .wait body to Join(targetDir, renamed|name); a new announced hash discards the recorded ranges",
     "interleavings of goroutines; MD5 and the OS (trusted); composition of the per-function facts into the end-to-end statement is a paper argument (DESIGN.md §8 C01); sender-side re-hash",
     {S+"process": ["ignore-unless-received", "hashes-the-full-body", "validated-needs-hash-match", "renames-full-to-wait", "caches-this-file", "mismatch-fails", "rename-failure-fails", "validated-is-queued"],
      S+"finalize": ["only-validated", "under-path-lock"],
      S+"putFileAway": ["moves-wait-body", "finalized-after-move", "error-means-not-finalized", "ok-means-finalized"],
      "stage.newLocalCompanion": None,
      S+"GetFileStatus": None,
      S+"Receive": ["record-before-rename", "received-after-rename", "caches-received-or-failed", "validates-what-was-received", "complete-is-queued"]})
prop("C04", "Unbounded proof of the receiver's ordering gate: a file is finalized only if its predecessor is delivered (finalized/logged, or found in the receive log), otherwise it is parked on the predecessor; waiters are released only after the predecessor was put away, each exactly as returned by the wait map; the receive-log record precedes the move; the order is given up only when the wait graph search found a back reference",
     "timers and the cleaner run concurrently (A1); cycle detection itself is only checked for 'a reported loop contains a back reference'; sender-side chain is C10",
     {S+"isFileReady": None, S+"finalizeHandler": None,
      S+"finalize": ["releases-after-delivery", "releases-own-waiters", "releases-waiters", "failure-releases-nothing", "each-waiter-queued"],
      S+"putFileAway": ["log-before-move"],
      S+"fromWait": None, S+"detectWaitLoop": None, S+"cleanWaiting": None})
prop("C05", "Unbounded proof of the duplicate-handling guards: a complete duplicate of a known (not failed) version with the same hash is discarded and never renamed, cached or queued again; exactly one receive-log record per put-away; a part of a known version is answered 'already received' without touching the stage",
     "cache ageing (clock), log refill window, interleavings (A1)",
     {S+"Receive": ["complete-duplicate-ignored", "duplicate-body-removed", "companion-removed-only-when-finalized", "removes-only-own-files", "caches-received-or-failed"],
      S+"process": ["ignore-unless-received", "caches-this-file"],
      S+"finalize": ["only-validated"],
      S+"putFileAway": ["one-record-per-call", "finalized-after-move"],
      S+"partReceived": ["known-file-answers-yes", "yes-needs-record-or-known-file"]})
prop("C06", "Unbounded proof of the write-ahead orderings inside each receiver function that the crash argument rests on: data written and closed before the companion records it, companion written before the rename to .full, receive-log record before the move, state finalized and companion removal only after a successful move (narrow claim: no crash image is enumerated)",
     "the crash-point quantifier itself: no crash image is enumerated, only the ordering discipline is proved; Recover's case analysis and fileutil.Move are listed in the evidence when under contract",
     {S+"Receive": ["data-before-record", "record-before-rename", "copy-error-is-reported", "record-error-is-reported", "completeness-of-written-record", "copies-into-the-partial"],
      S+"putFileAway": ["log-before-move", "finalized-after-move", "companion-removed-last"]})
prop("C08", "Unbounded proof on the receiver side that the answer to 'how many of these parts did you receive' counts exactly the leading parts that are on record and stops at the first missing one",
     "sender side (split at the acknowledged count, tracker) not yet under contract; several sender threads; HTTP transport",
     {S+"Received": None})
prop("C09", "Unbounded proof (all inputs, all loop iterations) that the real range-record helpers keep the receiver's record sound against a set-of-bytes specification, that Receive writes at the announced offset of the partial file, records exactly the announced range after the data was written, and keeps the read-modify-write of the companion under the exclusive per-file lock; one known finding (partial-overlap replacement drops acknowledged bytes) recorded with its input region",
     "concurrent receptions are covered only as lock discipline (A1); payload part reader (C13)",
     {"stage.addCompanionPart": None, "stage.companionPartExists": None, "stage.isCompanionComplete": None,
      S+"Receive": ["opens-the-partial", "writes-at-announced-offset", "copies-into-the-partial", "data-before-record", "record-under-lock", "records-announced-range", "completeness-of-written-record", "one-part-only"],
      "stage.newLocalCompanion": None,
      S+"partReceived": ["yes-needs-record-or-known-file", "reads-own-companion", "same-version-only"]})
prop("C20", "Unbounded proof that the clean-up removes a stray partial only when the file is delivered (finalized/logged in memory with the companion's hash, or found in the receive log with the companion's hash), only .part files older than the threshold, the companion only together with its partial, and only directories that are empty and were old enough when collected; the Walk callbacks are verified in the context of their parents with arbitrary state between invocations",
     "concurrency with running transfers (A1); file system semantics (trusted)",
     {S+"cleanStrays": None, S+"pruneTree": None})

os.makedirs(os.path.join(V, "props"), exist_ok=True)
for pid, p in P.items():
    json.dump(p, open(os.path.join(V, "props", pid + ".json"), "w"), indent=1)
if os.environ.get("DEV"):
    json.dump(dict(property="DEV", functions=os.environ["DEV"].split(","), claimed=False), open(os.path.join(V, "props", "DEV.json"), "w"))
print("props:", sorted(P))
