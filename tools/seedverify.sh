#!/bin/sh
# tools/seedverify.sh <seed dir containing patch.diff, meta.json, demo file>
# Confirms, in a scratch copy of /repo (HEAD, outside /repo and /verif): the patch applies and builds, the existing suite
# still passes with it, the demonstration fails with the patch and passes without it. Prints a one-line verdict per step.
export PATH=/opt/veriftools/go1.26.8/bin:$PATH GOTOOLCHAIN=local GOFLAGS=-mod=mod GOPROXY=off GOSUMDB=off
d=$(cd "$1" && pwd)
demo_file=$(python3 -c "import json;print(json.load(open('$d/meta.json'))['demo_file'])")
demo_dest=$(python3 -c "import json;print(json.load(open('$d/meta.json'))['demo_dest'])")
demo_cmd=$(python3 -c "import json;print(json.load(open('$d/meta.json'))['demo_cmd'])")
tmp=$(mktemp -d "${TMPDIR:-/tmp}/govc-seed.XXXXXX") || exit 3
trap 'rm -rf "$tmp"' EXIT INT TERM
cp -a /repo/. "$tmp/"; cd "$tmp" || exit 3
cp "$d/$(basename $demo_file)" "$tmp/$demo_dest" || exit 3
if (eval "$demo_cmd") >"$tmp/.demo0.log" 2>&1; then echo "demo-without-patch: pass (ok)"; else echo "demo-without-patch: FAIL (bad seed)"; tail -5 "$tmp/.demo0.log"; fi
git apply --whitespace=nowarn "$d/patch.diff" || { echo "patch: DOES NOT APPLY"; exit 1; }
go build ./... || { echo "build: FAIL"; exit 1; }
echo "build: ok"
if (eval "$demo_cmd") >"$tmp/.demo1.log" 2>&1; then echo "demo-with-patch: PASS (bad seed: not detected by its own demo)"; else echo "demo-with-patch: fail (ok)"; grep -m3 -E "^\s+.*_test.go|FAIL" "$tmp/.demo1.log" | head -3; fi
rm -f "$tmp/$demo_dest"
go test -vet=off -count=1 ./... 2>&1 | grep -v "no test files" | grep -v "^ok" > "$tmp/.suite.log"
if grep -q "^FAIL\|^---" "$tmp/.suite.log"; then echo "suite-with-patch:"; grep -E "^(--- FAIL|FAIL)" "$tmp/.suite.log" | head; else echo "suite-with-patch: all ok"; fi
