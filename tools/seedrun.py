#!/usr/bin/env python3
"""tools/seedrun.py [seed ids...] — runs the checks of every property that has a function under contract in a
package touched by the seeded patch (plus the seed's own property) against a scratch copy with the patch applied,
and records in seeded/<id>/meta.json which checks reported a VIOLATION (and through which obligations)."""
import json, os, re, subprocess, sys, glob, concurrent.futures
V = os.path.dirname(os.path.dirname(os.path.abspath(__file__)))
props = {os.path.basename(f)[:-5]: json.load(open(f)) for f in glob.glob(os.path.join(V, "props", "C*.json"))}
def pkg_of(fn):
    m = re.search(r"\(?\*?([a-z]+)\.", fn)
    return m.group(1) if m else ""
def run(seed):
    d = os.path.join(V, "seeded", seed)
    patch = os.path.join(d, "patch.diff")
    touched = set(re.findall(r"^\+\+\+ b/([a-z]+)/", open(patch).read(), re.M))
    own = seed.split("-")[0]
    todo = sorted({p for p, c in props.items() if p == own or any(pkg_of(f) in touched for f in c["functions"])})
    res = {}
    # the seed's own property first; the others only if that check does not report the change
    # (SEEDRUN_ALL=1 runs every relevant check regardless)
    todo = [own] + [p for p in todo if p != own]
    for p in todo:
        if p != own and res.get(own, {}).get("detected") and not os.environ.get("SEEDRUN_ALL"):
            continue
        out = subprocess.run([os.path.join(V, "bin", "mutcheck"), p, patch], capture_output=True, text=True).stdout
        obl = re.findall(r"^  obligation (\S+)", out, re.M)
        res[p] = {"detected": "MUTCHECK %s patch.diff: detected" % p in out, "obligations": sorted(set(obl)),
                  "undecided": len(re.findall(r"^UNDECIDED", out, re.M))}
    m = json.load(open(os.path.join(d, "seed_meta.json")))
    meta = {"id": seed, "breaks_property": own, "summary": m.get("summary"), "needs": m.get("needs"),
            "demo_file": m.get("demo_file"), "demo_dest": m.get("demo_dest"), "demo_cmd": m.get("demo_cmd"),
            "origin": "fresh sub-agent given only the property text and a scratch worktree of the pinned commit",
            "confirmed": open(os.path.join(d, "confirm.log")).read().splitlines(),
            "ran": ["tools/seedverify.sh seeded/%s (demo passes without the patch, fails with it, patch builds, existing suite unchanged)" % seed,
                    "bin/mutcheck <property> seeded/%s/patch.diff for: %s" % (seed, " ".join(res.keys()))],
            "checks": res,
            "detected_by": sorted(p for p, r in res.items() if r["detected"])}
    json.dump(meta, open(os.path.join(d, "meta.json"), "w"), indent=1)
    return seed, meta["detected_by"], {p: r["obligations"] for p, r in res.items() if r["detected"]}
seeds = sys.argv[1:] or sorted(os.path.basename(os.path.dirname(p)) for p in glob.glob(os.path.join(V, "seeded", "*", "patch.diff")))
with concurrent.futures.ThreadPoolExecutor(max_workers=4) as ex:
    for seed, det, obl in ex.map(run, seeds):
        print(seed, "detected by", det or "NONE")
        for p, o in obl.items():
            print("   ", p, o[:3])
