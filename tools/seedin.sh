#!/bin/sh
# tools/seedin.sh <property> <n> [patch override]   -- imports /tmp/seed-<prop>-out/<n> into /verif/seeded/<prop>-<n>/
# after confirming it in a scratch copy (tools/seedverify.sh), and runs the property's check against it.
prop=$1; n=$2; src=/tmp/${SEEDPFX:-seed}-$prop-out/$n; dst=/verif/seeded/$prop-${DSTN:-$n}
[ -d "$src" ] || { echo "no $src"; exit 1; }
mkdir -p "$dst"
cp "$src"/meta.json "$dst/seed_meta.json"
demo=$(python3 -c "import json;print(json.load(open('$src/meta.json'))['demo_file'])")
cp "$src/$(basename $demo)" "$dst/"
if [ -n "$3" ]; then cp "$3" "$dst/patch.diff"; cp "$src/patch.diff" "$dst/patch_as_delivered.diff"; else cp "$src/patch.diff" "$dst/patch.diff"; fi
cp "$dst/seed_meta.json" "$dst/meta.json.tmp"
python3 - "$dst" <<'PY'
import json,sys,os
d=sys.argv[1]
m=json.load(open(os.path.join(d,'meta.json.tmp')))
json.dump(m,open(os.path.join(d,'seed_meta.json'),'w'),indent=1)
os.remove(os.path.join(d,'meta.json.tmp'))
PY
cp "$dst/seed_meta.json" "$dst/meta.json"
echo "== confirm $prop-$n"; /verif/tools/seedverify.sh "$dst" 2>&1 | tee "$dst/confirm.log" | grep -v "^WARNING"
