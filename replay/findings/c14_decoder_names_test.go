package payload

// Replay of the counterexample to payload.NewDecoder/ensures:names-are-local (property C14) on the real
// code: a part descriptor whose name climbs out of the staging root is accepted and handed to the stage.
// Injected with `go test -overlay`; never written into /repo.

import (
	"bytes"
	"encoding/json"
	"path/filepath"
	"testing"
)

func TestVerifReplayC14DecoderRefusesEscapingNames(t *testing.T) {
	for _, tc := range []struct{ name, renamed, sep string }{
		{"../../../escape.dat", "", ""},
		{"ok.dat", "../../escape.dat", ""},
		{"/abs/escape.dat", "", ""},
		{`..\..\escape.dat`, "", `\`},
	} {
		meta := []*fileMeta{{Name: tc.name, Renamed: tc.renamed, Hash: "h", Size: 1, Beg: 0, End: 1}}
		b, _ := json.Marshal(meta)
		dec, err := NewDecoder(len(b), tc.sep, bytes.NewReader(append(b, 'x')))
		if err != nil {
			continue // refused
		}
		for _, p := range dec.GetParts() {
			if !filepath.IsLocal(p.GetName()) || (p.GetRenamed() != "" && !filepath.IsLocal(p.GetRenamed())) {
				t.Errorf("VIOLATED names-are-local: descriptor name=%q renamed=%q (sep %q) was accepted; the stage joins it onto its root: %s", p.GetName(), p.GetRenamed(), tc.sep, filepath.Join("/data/stage/src", p.GetName()))
			}
		}
	}
}
