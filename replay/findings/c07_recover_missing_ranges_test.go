package client

// Replay of the counterexample to (*Broker).recover$1/loop0-preserved:missing-wellformed (properties C07, C11)
// on the real code. Injected with `go test -overlay`; never written into /repo.

import (
	"testing"
	"time"

	"github.com/arm-doe/sts"
	"github.com/arm-doe/sts/log"
	"github.com/arm-doe/sts/marshal"
	"github.com/arm-doe/sts/mock"
)

type vrStore struct{ *mock.Store }

func (s vrStore) Sync(sts.File) (sts.File, error) { return nil, nil } // unchanged

func TestVerifReplayC07OverlappingReportedRanges(t *testing.T) {
	log.InitExternal(&mock.Logger{})
	cache := mock.NewCache()
	mtime := time.Now().Add(-time.Hour)
	cache.Add(&mock.File{Name: "a.dat", Path: "/out/a.dat", Size: 30, Time: mtime, Hash: "h1"})
	// the receiver reports the ranges it holds; after a partly overlapping retransmission they overlap
	reported := []*sts.ByteRange{{Beg: 0, End: 10}, {Beg: 5, End: 15}}
	broker := &Broker{Conf: &Conf{
		Store: vrStore{mock.NewStore(0, 0)},
		Cache: cache,
		Recoverer: func() ([]*sts.Partial, error) {
			return []*sts.Partial{{Name: "a.dat", Size: 30, Hash: "h1", Time: marshal.NanoTime{Time: mtime}, Parts: reported}}, nil
		},
		Validator:    func([]sts.Pollable) ([]sts.Polled, error) { return nil, nil },
		PollMaxCount: 10,
	}}
	send, err := broker.recover()
	if err != nil {
		t.Fatal(err)
	}
	for _, h := range send {
		rf, ok := h.(*recoverFile)
		if !ok {
			continue
		}
		for _, m := range rf.left {
			if !(0 <= m.Beg && m.Beg < m.End && m.End <= 30) {
				t.Errorf("VIOLATED missing-wellformed: reported %v, size 30: range [%d,%d) queued for sending is empty or negative", dumpRanges(reported), m.Beg, m.End)
			}
			for x := m.Beg; x < m.End; x++ {
				for _, p := range reported {
					if p.Beg <= x && x < p.End {
						t.Errorf("VIOLATED only-missing: byte %d is held by the receiver (%v) and queued again in [%d,%d)", x, dumpRanges(reported), m.Beg, m.End)
					}
				}
			}
		}
		// the chunks handed out must be non-empty
		for !rf.IsAllocated() {
			off, n := rf.Allocate(8)
			if n <= 0 {
				t.Fatalf("VIOLATED (C11) chunk at offset %d has length %d", off, n)
			}
		}
	}
}

func dumpRanges(rs []*sts.ByteRange) (out [][2]int64) {
	for _, r := range rs {
		out = append(out, [2]int64{r.Beg, r.End})
	}
	return
}
