package main

// Replay of the counterexample to (*serverApp).init$3/before-call:source-directories-are-not-shared
// (property C14) on the real code: the gatekeeper factory replaces every path separator of a source
// name by "--" to get its directory name, so the two different source names "site/inst" and
// "site--inst" (both pass the validator's name pattern, both may be listed) get the same stage,
// final and log directories: what is delivered for one lies in the directories of the other.
// Injected with `go test -overlay`; never written into /repo.

import (
	"bytes"
	"crypto/md5"
	"encoding/json"
	"fmt"
	"os"
	"path/filepath"
	"testing"
	"time"

	"github.com/arm-doe/sts"
	"github.com/arm-doe/sts/log"
	"github.com/arm-doe/sts/marshal"
	"github.com/arm-doe/sts/mock"
)

func TestVerifReplayC14SourceAlias(t *testing.T) {
	log.InitExternal(&mock.Logger{})
	root := t.TempDir()
	dirs := &sts.ServerDirs{
		LogIn: filepath.Join(root, "logs", "incoming"), LogMsg: filepath.Join(root, "logs", "messages"),
		Stage: filepath.Join(root, "stage"), Final: filepath.Join(root, "final"), Serve: filepath.Join(root, "serve"),
	}
	for _, d := range []string{dirs.LogIn, dirs.LogMsg, dirs.Stage, dirs.Final, dirs.Serve} {
		os.MkdirAll(d, 0o755)
	}
	app := &serverApp{conf: &sts.ServerConf{Dirs: dirs, Server: &sts.HTTPServer{Host: "localhost", Port: 1},
		Sources: []string{"site/inst", "site--inst"}}}
	if err := app.init(); err != nil {
		t.Fatal(err)
	}
	for _, src := range []string{"site/inst", "site--inst"} {
		if !app.server.IsValid(src, "") {
			t.Fatalf("source %q is not accepted by the validator", src)
		}
	}
	// deliver one file as source "site/inst"
	content := []byte("belongs to site/inst")
	hash := fmt.Sprintf("%x", md5.Sum(content))
	meta, _ := json.Marshal([]map[string]any{{"n": "secret.dat", "f": hash, "s": len(content), "b": 0, "e": len(content)}})
	gk := app.server.GateKeeperFactory("site/inst")
	dec, err := app.server.DecoderFactory(len(meta), string(os.PathSeparator), bytes.NewReader(append(append([]byte{}, meta...), content...)))
	if err != nil {
		t.Fatal(err)
	}
	parts := dec.GetParts()
	gk.Prepare(parts)
	rd, _ := dec.Next()
	beg, end := parts[0].GetSlice()
	if err := gk.Receive(&sts.Partial{Name: parts[0].GetName(), Size: parts[0].GetFileSize(), Hash: parts[0].GetFileHash(),
		Time: marshal.NanoTime{Time: parts[0].GetFileTime()}, Source: "site/inst", Parts: []*sts.ByteRange{{Beg: beg, End: end}}}, rd); err != nil {
		t.Fatal(err)
	}
	deadline := time.Now().Add(20 * time.Second)
	for gk.GetFileStatus("secret.dat", time.Now()) != sts.ConfirmPassed && time.Now().Before(deadline) {
		time.Sleep(20 * time.Millisecond)
	}
	// ask the *other* source about it
	other := app.server.GateKeeperFactory("site--inst")
	if st := other.GetFileStatus("secret.dat", time.Now()); st == sts.ConfirmPassed {
		t.Errorf("VIOLATED source-directories-are-not-shared: the file delivered for source %q is reported as delivered (status %d) to source %q: both use %s", "site/inst", st, "site--inst", filepath.Join(dirs.Final, "site--inst"))
	}
	if _, err := os.Stat(filepath.Join(dirs.Final, "site--inst", "secret.dat")); err == nil {
		t.Errorf("VIOLATED source-directories-are-not-shared: %s is the final directory of both sources", filepath.Join(dirs.Final, "site--inst"))
	}
}
