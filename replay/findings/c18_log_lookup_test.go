package log

// Replay of the counterexamples to (*rollingFile).search$1/on-return:yes-needs-exact-record (property C18)
// on the real code: the look-up matched the name as a substring of any line, and only examined the first
// matching line of a day for the hash. Injected with `go test -overlay`; never written into /repo.

import (
	"testing"
	"time"

	"github.com/arm-doe/sts/mock"
)

func TestVerifReplayC18LookupIsExact(t *testing.T) {
	logger := NewFileIO(t.TempDir(), nil, nil, false)
	start := time.Now().Add(-time.Minute)
	logger.Received(&mock.File{Name: "dir/xa.dat", Hash: "h0", Size: 1})
	logger.Received(&mock.File{Name: "b.dat", Hash: "h1", Size: 1})
	logger.Received(&mock.File{Name: "b.dat", Hash: "h2", Size: 1})
	stop := time.Now().Add(time.Minute)
	if logger.WasReceived("a.dat", "", start, stop) {
		t.Errorf("VIOLATED yes-needs-exact-record: a.dat was never logged, but the record of dir/xa.dat answers yes")
	}
	if logger.WasReceived("xa.dat", "", start, stop) {
		t.Errorf("VIOLATED yes-needs-exact-record: xa.dat was never logged, but the record of dir/xa.dat answers yes")
	}
	if !logger.WasReceived("b.dat", "h2", start, stop) {
		t.Errorf("VIOLATED exact-record-gives-yes: b.dat was logged with hash h2 (after an earlier record with h1) but the look-up answers no")
	}
	if !logger.WasReceived("dir/xa.dat", "h0", start, stop) || !logger.WasReceived("b.dat", "", start, stop) {
		t.Errorf("exact records must be found")
	}
}
