package client

// Replay of the counterexample to (*Broker).handleSendError/on-return:acknowledged-parts-are-split-off
// (property C08) on the real code. Injected with `go test -overlay`; never written into /repo.

import (
	"io"
	"testing"
	"time"

	"github.com/arm-doe/sts"
	"github.com/arm-doe/sts/log"
	"github.com/arm-doe/sts/mock"
)

type vrPayload struct {
	parts   []sts.Binned
	splitAt []int
}

func (p *vrPayload) Add(sts.Binnable) bool { return false }
func (p *vrPayload) Remove(sts.Binned)     {}
func (p *vrPayload) IsFull() bool          { return true }
func (p *vrPayload) Split(n int) sts.Payload {
	p.splitAt = append(p.splitAt, n)
	if n < 1 || n >= len(p.parts) {
		return nil
	}
	tail := &vrPayload{parts: p.parts[n:]}
	p.parts = p.parts[:n]
	return tail
}
func (p *vrPayload) GetSize() int64                { return int64(len(p.parts)) }
func (p *vrPayload) GetParts() []sts.Binned        { return p.parts }
func (p *vrPayload) EncodeHeader() ([]byte, error) { return nil, nil }
func (p *vrPayload) GetEncoder() io.ReadCloser     { return nil }
func (p *vrPayload) GetStarted() time.Time         { return time.Time{} }
func (p *vrPayload) GetCompleted() time.Time       { return time.Time{} }

type vrBinned struct{ name string }

func (b vrBinned) GetName() string          { return b.name }
func (b vrBinned) GetRenamed() string       { return "" }
func (b vrBinned) GetPrev() string          { return "" }
func (b vrBinned) GetFileTime() time.Time   { return time.Time{} }
func (b vrBinned) GetFileHash() string      { return "h" }
func (b vrBinned) GetFileSize() int64       { return 10 }
func (b vrBinned) GetSendSize() int64       { return 10 }
func (b vrBinned) GetSlice() (int64, int64) { return 0, 10 }

func TestVerifReplayC08PartCountOfAnswerIsUsed(t *testing.T) {
	log.InitExternal(&mock.Logger{})
	asked := 0
	broker := &Broker{Conf: &Conf{
		TxRecoverer: func(sts.Payload) (int, error) { asked++; return 0, nil },
	}}
	broker.chTransmitted = make(chan sts.Payload, 4)
	broker.chStats = make(chan sts.Payload, 4)
	p := &vrPayload{parts: []sts.Binned{vrBinned{"a"}, vrBinned{"b"}, vrBinned{"c"}}}
	// the receiver answered 206 with X-STS-PartCount: 2 -> the first two parts are recorded
	rest := broker.handleSendError(p, 2)
	if len(p.splitAt) != 1 || p.splitAt[0] != 2 {
		t.Errorf("VIOLATED acknowledged-parts-are-split-off: receiver acknowledged 2 of 3 parts, Split calls: %v", p.splitAt)
	}
	if rest == nil || len(rest.GetParts()) != 1 {
		n := -1
		if rest != nil {
			n = len(rest.GetParts())
		}
		t.Errorf("VIOLATED remainder-is-returned: %d part(s) are sent again, want only the 1 unacknowledged part", n)
	}
	if len(broker.chTransmitted) != 1 {
		t.Errorf("VIOLATED forwards-acknowledged-head: %d payloads forwarded as transmitted, want the acknowledged head", len(broker.chTransmitted))
	}
}
