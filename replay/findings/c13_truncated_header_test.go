package payload

// Replay of the counterexample to payload.NewDecoder$1/on-return:header-pipe-is-closed (property C13) on
// the real code: the announced header length is larger than what arrives (the request body ends
// early inside the header). The goroutine that copies the header into the pipe never closes it, so
// the JSON decoder - and with it NewDecoder and the request - waits forever instead of refusing.
// Injected with `go test -overlay`; never written into /repo.

import (
	"bytes"
	"encoding/json"
	"testing"
	"time"
)

func TestVerifReplayC13TruncatedHeader(t *testing.T) {
	meta := []*fileMeta{{Name: "a.dat", Hash: "h", Size: 4, Beg: 0, End: 4}}
	b, _ := json.Marshal(meta)
	for _, cut := range []int{1, len(b) / 2, len(b) - 1} {
		done := make(chan error, 1)
		go func() {
			_, err := NewDecoder(len(b), "", bytes.NewReader(b[:cut]))
			done <- err
		}()
		select {
		case err := <-done:
			if err == nil {
				t.Errorf("header cut at %d of %d bytes was accepted", cut, len(b))
			}
		case <-time.After(3 * time.Second):
			t.Errorf("VIOLATED header-pipe-is-closed: header cut at %d of %d bytes: NewDecoder still waiting after 3 s (never refused)", cut, len(b))
		}
	}
}
