package cache

// Replay of the counterexample to (*JSON).add/on-return:done-means-this-version (properties C02, C17) on the
// real code: a file confirmed and marked done is replaced by new content under the same name; re-adding
// it to the cache must not leave the entry done, or the sender's clean-up deletes the new, unconfirmed file.
// Injected with `go test -overlay`; never written into /repo.

import (
	"testing"
	"time"

	"github.com/arm-doe/sts/mock"
)

func TestVerifReplayC02ReAddedChangedFileIsNotDone(t *testing.T) {
	j, err := NewJSON(t.TempDir(), "/out", "")
	if err != nil {
		t.Fatal(err)
	}
	t0 := time.Now().Add(-time.Hour)
	j.Add(&mock.File{Name: "a.dat", Path: "/out/a.dat", Size: 10, Time: t0, Hash: "h1"})
	j.Done("a.dat", nil) // version h1 was confirmed by the receiver
	if !j.Get("a.dat").IsDone() {
		t.Fatal("setup: not done")
	}
	// the file is rewritten (new size, time and hash); the next scan hashes it and adds it again
	j.Add(&mock.File{Name: "a.dat", Path: "/out/a.dat", Size: 12, Time: t0.Add(time.Minute), Hash: "h2"})
	if c := j.Get("a.dat"); c.IsDone() {
		t.Errorf("VIOLATED done-means-this-version: entry a.dat now describes version %s (size %d) and is still marked done although only version h1 was confirmed", c.GetHash(), c.GetSize())
	}
}
