package payload

// Replay of the counterexample to (*payload.Bin).Remove/on-return:remaining-parts-keep-their-order
// (property C11) on the real code: removing a part from a payload swaps the last part into its place,
// so the remaining parts of another file come out of order - [A 0:10, B 0:10, B 10:20] without the
// part of A is [B 10:20, B 0:10]: the parts of B are no longer ascending in the payload that is
// re-sent. Injected with `go test -overlay`; never written into /repo.

import (
	"testing"
	"time"

	"github.com/arm-doe/sts"
	"github.com/arm-doe/sts/log"
	"github.com/arm-doe/sts/mock"
)

type verifC11Chunk struct {
	name     string
	size     int64
	beg, end int64
	given    int64
}

func (c *verifC11Chunk) GetPath() string          { return "/data/" + c.name }
func (c *verifC11Chunk) GetName() string          { return c.name }
func (c *verifC11Chunk) GetSize() int64           { return c.size }
func (c *verifC11Chunk) GetTime() time.Time       { return time.Unix(1, 0) }
func (c *verifC11Chunk) GetMeta() []byte          { return nil }
func (c *verifC11Chunk) GetHash() string          { return "h" }
func (c *verifC11Chunk) GetPrev() string          { return "" }
func (c *verifC11Chunk) GetSendSize() int64       { return c.size }
func (c *verifC11Chunk) GetSlice() (int64, int64) { return c.beg, c.end - c.beg }
func (c *verifC11Chunk) GetNextAlloc() (int64, int64) {
	return c.beg + c.given, c.end
}
func (c *verifC11Chunk) AddAlloc(n int64) { c.given += n }
func (c *verifC11Chunk) IsAllocated() bool { return c.given == c.end-c.beg }

func TestVerifReplayC11RemoveKeepsOrder(t *testing.T) {
	log.InitExternal(&mock.Logger{})
	bin := NewBin(1000, nil, nil)
	for _, c := range []*verifC11Chunk{{name: "a", size: 10, beg: 0, end: 10}, {name: "b", size: 20, beg: 0, end: 10}, {name: "b", size: 20, beg: 10, end: 20}} {
		if !bin.Add(c) {
			t.Fatalf("part %s %d:%d not added", c.name, c.beg, c.end)
		}
	}
	parts := bin.GetParts()
	bin.Remove(parts[0])
	var last int64 = -1
	for _, p := range bin.GetParts() {
		beg, end := p.GetSlice()
		if p.GetName() == "b" {
			if beg < last {
				t.Errorf("VIOLATED remaining-parts-keep-their-order: after removing the part of a the parts of b are %v: %d:%d comes after a part that ends at %d", describe(bin.GetParts()), beg, end, last)
			}
			last = end
		}
	}
}

func describe(ps []sts.Binned) []string {
	var out []string
	for _, p := range ps {
		b, e := p.GetSlice()
		out = append(out, p.GetName()+" "+itoa(b)+":"+itoa(e))
	}
	return out
}

func itoa(n int64) string {
	if n == 0 {
		return "0"
	}
	s := ""
	for n > 0 {
		s = string(rune('0'+n%10)) + s
		n /= 10
	}
	return s
}
