package stage

// Replay of the counterexample to payload.NewDecoder/on-return:names-are-inside (property C14) on the
// real code: a part descriptor whose name is "." (or cleans to it, e.g. "x/..") is a *local* path, so
// the decoder accepts it; the stage then joins it onto its root, which yields the root itself, and
// creates <stage-root-of-source>.part / .cmp - siblings of the source's stage directory, outside the
// directories that belong to the source. Injected with `go test -overlay`; never written into /repo.

import (
	"bytes"
	"encoding/json"
	"os"
	"path/filepath"
	"testing"
	"time"

	"github.com/arm-doe/sts"
	"github.com/arm-doe/sts/log"
	"github.com/arm-doe/sts/marshal"
	"github.com/arm-doe/sts/mock"
	"github.com/arm-doe/sts/payload"
)

type verifC14DotLogger struct{}

func (l *verifC14DotLogger) Parse(func(name, renamed, hash string, size int64, t time.Time) bool, time.Time, time.Time) bool {
	return false
}
func (l *verifC14DotLogger) Received(file sts.Received)                                   {}
func (l *verifC14DotLogger) WasReceived(name, hash string, after, before time.Time) bool { return false }

func TestVerifReplayC14NameDot(t *testing.T) {
	log.InitExternal(&mock.Logger{})
	for _, name := range []string{".", "x/.."} {
		base := t.TempDir()
		stageRoot := filepath.Join(base, "stage")
		srcStage := filepath.Join(stageRoot, "src")
		srcFinal := filepath.Join(base, "final", "src")
		os.MkdirAll(srcStage, 0o755)
		os.MkdirAll(srcFinal, 0o755)
		type meta struct {
			Name string           `json:"n"`
			Hash string           `json:"f"`
			Size int64            `json:"s"`
			Beg  int64            `json:"b"`
			End  int64            `json:"e"`
			Time marshal.NanoTime `json:"t"`
		}
		b, _ := json.Marshal([]meta{{Name: name, Hash: "d41d8cd98f00b204e9800998ecf8427e", Size: 4, Beg: 0, End: 2, Time: marshal.NanoTime{Time: time.Now()}}})
		dec, err := payload.NewDecoder(len(b), "", bytes.NewReader(append(b, 'a', 'b')))
		if err != nil {
			continue // refused: nothing reaches the stage
		}
		s := New("src", srcStage, srcFinal, &verifC14DotLogger{}, nil, nil)
		parts := dec.GetParts()
		s.Prepare(parts)
		p := parts[0]
		beg, end := p.GetSlice()
		pr, _ := dec.Next()
		s.Receive(&sts.Partial{Name: p.GetName(), Size: p.GetFileSize(), Hash: p.GetFileHash(), Time: marshal.NanoTime{Time: p.GetFileTime()},
			Source: "src", Parts: []*sts.ByteRange{{Beg: beg, End: end}}}, pr)
		ents, _ := os.ReadDir(stageRoot)
		for _, e := range ents {
			if e.Name() != "src" {
				t.Errorf("VIOLATED names-are-inside: part name %q was accepted and the stage created %s, outside the stage directory of source src (%s)", name, filepath.Join(stageRoot, e.Name()), srcStage)
			}
		}
	}
}
