package stage

// Replay of the counterexample to stage.companionPartExists/ensures:sound (property C09) on the real code.
// Injected with `go test -overlay` as /repo/stage/zz_verif_replay_test.go; never written into /repo.

import (
	"testing"

	"github.com/arm-doe/sts"
)

func TestVerifReplayC09PartExistsOverclaim(t *testing.T) {
	cmp := &sts.Partial{}
	// history: parts [0,10) and [10,20) are received, then [5,15) arrives (replaces [0,10))
	addCompanionPart(cmp, 0, 10)
	addCompanionPart(cmp, 10, 20)
	addCompanionPart(cmp, 5, 15)
	covered := func(x int64) bool {
		for _, p := range cmp.Parts {
			if p.Beg <= x && x < p.End {
				return true
			}
		}
		return false
	}
	beg, end := int64(5), int64(25)
	if companionPartExists(cmp, beg, end) {
		for x := beg; x < end; x++ {
			if !covered(x) {
				t.Fatalf("VIOLATED companionPartExists/ensures:sound: record %v claims [%d,%d) but byte %d is in no recorded range", dump(cmp), beg, end, x)
			}
		}
	}
}

func dump(cmp *sts.Partial) (out [][2]int64) {
	for _, p := range cmp.Parts {
		out = append(out, [2]int64{p.Beg, p.End})
	}
	return
}
