package client

// Replay of the counterexample to (*Broker).startBin/before-store:no-silent-drop-when-nothing-fits
// (property C11) on the real code: with a payload size below 10 bytes the 10% slack is 0, a bin that is
// exactly full does not report IsFull, Add returns false and the rest of the chunk is dropped.
// Injected with `go test -overlay`; never written into /repo.

import (
	"sync"
	"testing"
	"time"

	"github.com/alecthomas/units"
	"github.com/arm-doe/sts"
	"github.com/arm-doe/sts/log"
	"github.com/arm-doe/sts/mock"
	"github.com/arm-doe/sts/payload"
)

type vrSendable struct {
	*mock.File
	off, n int64
}

func (s vrSendable) GetPrev() string          { return "" }
func (s vrSendable) GetSlice() (int64, int64) { return s.off, s.n }
func (s vrSendable) GetSendSize() int64       { return s.n }

func TestVerifReplayC11TinyPayloadDropsChunkRemainder(t *testing.T) {
	log.InitExternal(&mock.Logger{})
	store := mock.NewStore(0, 0)
	broker := &Broker{Conf: &Conf{
		Store:        store,
		PayloadSize:  units.Base2Bytes(5), // < 10 bytes: slack int64(5 * 0.1) == 0
		BuildPayload: payload.NewBin,
		Tagger:       func(string) string { return "" },
	}}
	broker.tagMap = map[string]*FileTag{}
	broker.chStop = make(chan bool)
	broker.chQueued = make(chan sts.Sendable, 2)
	broker.chTransmit = make(chan sts.Payload, 16)
	var wg sync.WaitGroup
	wg.Add(1)
	go broker.startBin(&wg)
	broker.chQueued <- vrSendable{&mock.File{Name: "a.dat", Size: 20}, 0, 20}
	time.Sleep(300 * time.Millisecond)
	close(broker.chQueued)
	wg.Wait()
	close(broker.chTransmit)
	var packed int64
	for p := range broker.chTransmit {
		for _, part := range p.GetParts() {
			_, n := part.GetSlice()
			packed += n
		}
	}
	if packed != 20 {
		t.Errorf("VIOLATED no-silent-drop-when-nothing-fits: chunk [0,20) of a.dat with payload size 5: only %d of 20 bytes were packed into payloads, the rest of the chunk was dropped", packed)
	}
}
