package http

// Replay of the counterexample to (*Server).getGateKeeper/before-call:source-is-a-directory-name (property
// C14) on the real code: on a receiver without an allow-list the source name ".." reaches the gatekeeper
// factory, which maps it to the parent of the stage, final and log roots.
// Injected with `go test -overlay`; never written into /repo.

import (
	"net/http/httptest"
	"path/filepath"
	"strings"
	"testing"

	"github.com/arm-doe/sts"
)

func TestVerifReplayC14SourceDotDot(t *testing.T) {
	for _, source := range []string{"..", "."} {
		var stageDir string
		s := &Server{
			GateKeepers: map[string]sts.GateKeeper{},
			// the same mapping as main/server.go newStage
			GateKeeperFactory: func(src string) sts.GateKeeper {
				stageDir = filepath.Join("/data/stage", strings.ReplaceAll(src, "/", "--"))
				return nil
			},
		}
		r := httptest.NewRequest("PUT", "/data", nil)
		r.Header.Set(HeaderSourceName, source)
		s.getGateKeeper(r)
		if stageDir != "" && !strings.HasPrefix(stageDir, "/data/stage/") {
			t.Errorf("VIOLATED source-is-a-directory-name: source %q is handed to the gatekeeper factory and maps to stage root %q, outside /data/stage/<source>", source, stageDir)
		}
	}
}
