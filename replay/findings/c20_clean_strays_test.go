package stage

// Replays of three counterexamples to obligations of (*Stage).cleanStrays$1 (property C20) on the real code.
// Injected with `go test -overlay` as /repo/stage/zz_verif_replay_test.go; never written into /repo.

import (
	"os"
	"path/filepath"
	"testing"
	"time"

	"github.com/arm-doe/sts"
	"github.com/arm-doe/sts/log"
	"github.com/arm-doe/sts/mock"
)

type vrLogger struct{ logged map[string]string } // name -> hash that was logged as received

func (l *vrLogger) Parse(func(name, renamed, hash string, size int64, t time.Time) bool, time.Time, time.Time) bool {
	return false
}
func (l *vrLogger) Received(sts.Received) {}
func (l *vrLogger) WasReceived(relPath, hash string, after, before time.Time) bool {
	h, ok := l.logged[relPath]
	return ok && (hash == "" || hash == h)
}

func vrStage(t *testing.T, lg *vrLogger) (*Stage, string) {
	log.InitExternal(&mock.Logger{})
	root := t.TempDir()
	s := New("vr", filepath.Join(root, "stage"), filepath.Join(root, "final"), lg, nil, nil)
	os.MkdirAll(s.rootDir, 0o755)
	return s, s.rootDir
}

// a stale (2 days old) partial of `name` with a companion announcing `hash`
func vrPartial(t *testing.T, root, name, hash string) (part, cmp string) {
	base := filepath.Join(root, name)
	part, cmp = base+partExt, base+compExt
	if err := os.WriteFile(part, make([]byte, 20), 0o644); err != nil {
		t.Fatal(err)
	}
	c := &sts.Partial{Name: name, Hash: hash, Size: 20, Parts: []*sts.ByteRange{{Beg: 0, End: 10}}}
	if err := writeCompanion(base, c); err != nil {
		t.Fatal(err)
	}
	old := time.Now().Add(-48 * time.Hour)
	os.Chtimes(part, old, old)
	return
}

func exists(p string) bool { _, err := os.Stat(p); return err == nil }

// obligation cleanStrays$1/before-call:reads-companion-of-the-partial and
// delete-needs-delivered-same-hash: an OLD version (hash h1) of x.dat is known as logged; a partial of a
// NEW version (hash h2) is in the stage. It must survive the clean-up.
func TestVerifReplayC20NewVersionPartialSurvives(t *testing.T) {
	s, root := vrStage(t, &vrLogger{logged: map[string]string{"x.dat": "h1"}})
	s.cache[filepath.Join(root, "x.dat")] = &finalFile{path: filepath.Join(root, "x.dat"), name: "x.dat", hash: "h1", state: stateLogged, logged: time.Now()}
	part, cmp := vrPartial(t, root, "x.dat", "h2")
	s.cleanStrays(24 * time.Hour)
	if !exists(part) {
		t.Errorf("VIOLATED delete-needs-delivered-same-hash: partial of version h2 deleted although only version h1 was delivered")
	}
	if !exists(cmp) {
		t.Errorf("VIOLATED companion-only-with-partial: companion of the undelivered version h2 deleted")
	}
}

// obligation delete-needs-delivered-same-hash: the file failed validation (state failed, same hash) and is
// being sent again; its stale partial is not the left-over of a delivered file.
func TestVerifReplayC20FailedFilePartialSurvives(t *testing.T) {
	s, root := vrStage(t, &vrLogger{logged: map[string]string{}})
	s.cache[filepath.Join(root, "y.dat")] = &finalFile{path: filepath.Join(root, "y.dat"), name: "y.dat", hash: "h1", state: stateFailed}
	part, _ := vrPartial(t, root, "y.dat", "h1")
	s.cleanStrays(24 * time.Hour)
	if !exists(part) {
		t.Errorf("VIOLATED delete-needs-delivered-same-hash: partial deleted although the file (state failed) was neither delivered nor logged")
	}
}
