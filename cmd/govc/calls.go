package main

// Calls: builtins, inlining, modular contracts, trusted specs, default havoc; call-site assertions.

import (
	"fmt"
	"go/token"
	"go/types"
	"regexp"
	"strconv"
	"strings"

	"golang.org/x/tools/go/ssa"
)

func (x *Exec) callArgs(st *State, fr *Frame, cc *ssa.CallCommon) []Val {
	var args []Val
	if cc.IsInvoke() {
		args = append(args, x.val(st, fr, cc.Value))
	}
	for _, a := range cc.Args {
		args = append(args, x.val(st, fr, a))
	}
	return args
}

func (x *Exec) staticCallee(st *State, fr *Frame, cc *ssa.CallCommon) (*ssa.Function, []Val) {
	if cc.IsInvoke() {
		// devirtualize when the dynamic type of the receiver is known on this path
		recv := x.val(st, fr, cc.Value)
		if recv.K == KIface && isNumLit(recv.Fs[0].T.S) && !strings.HasPrefix(recv.Fs[0].T.S, "(") {
			id, _ := strconv.Atoi(recv.Fs[0].T.S)
			if id >= 1 && id <= len(x.reg.typeByID) {
				t := x.reg.typeByID[id-1]
				if sel := x.P.prog.MethodSets.MethodSet(t).Lookup(cc.Method.Pkg(), cc.Method.Name()); sel != nil {
					if fn := x.P.prog.MethodValue(sel); fn != nil && x.P.inRepo(fn) {
						return fn, nil
					}
				}
			}
		}
		return nil, nil
	}
	switch f := cc.Value.(type) {
	case *ssa.Function:
		return f, nil
	case *ssa.MakeClosure:
		v := x.val(st, fr, f)
		return v.Fn, v.Binds
	case *ssa.Builtin:
		return nil, nil
	}
	v := x.val(st, fr, cc.Value)
	if v.K == KClosure {
		return v.Fn, v.Binds
	}
	return nil, nil
}

func (x *Exec) calleeName(st *State, fr *Frame, cc *ssa.CallCommon) string {
	if cc.IsInvoke() {
		if f, _ := x.staticCallee(st, fr, cc); f != nil {
			return normName(f.String())
		}
		return ifaceMethodName(cc)
	}
	if b, ok := cc.Value.(*ssa.Builtin); ok {
		return "builtin." + b.Name()
	}
	if f, _ := x.staticCallee(st, fr, cc); f != nil {
		return normName(f.String())
	}
	return "dyn:" + dynName(cc.Value)
}

// patternMatches: does a call-site pattern select this callee name?
func patternMatches(pat CallPattern, kind, callee string, pkgShort string) bool {
	if pat.Kind != kind && !(pat.Kind == "call" && kind == "call") {
		return false
	}
	if pat.Callee == callee || pat.Callee == "*" {
		return true
	}
	// instances of generic functions are matched by their origin: client.sendCh[sts.Polled] ~ sendCh
	if i := strings.Index(callee, "["); i > 0 && strings.HasSuffix(callee, "]") && !strings.Contains(pat.Callee, "[") {
		return patternMatches(pat, kind, callee[:i], pkgShort)
	}
	// unqualified names of the contract's package
	if qualifyShort(pat.Callee, pkgShort) == callee {
		return true
	}
	// dynamic calls may be written without the dyn: prefix
	if "dyn:"+pat.Callee == callee || "map:"+pat.Callee == callee || "store:"+pat.Callee == callee {
		return true
	}
	// library names may be written with the last path element only: filepath.Join for path/filepath.Join
	if strings.Contains(callee, "/") && shortLib(callee) == pat.Callee {
		return true
	}
	return false
}

func qualifyShort(name, sp string) string {
	if sp == "" {
		return name
	}
	if strings.HasPrefix(name, "(") {
		i := strings.Index(name, ")")
		if i < 0 {
			return name
		}
		recv := name[1:i]
		star := ""
		if strings.HasPrefix(recv, "*") {
			star = "*"
			recv = recv[1:]
		}
		if !strings.Contains(recv, ".") {
			recv = sp + "." + recv
		}
		return "(" + star + recv + ")" + name[i+1:]
	}
	if !strings.Contains(name, ".") {
		return sp + "." + name
	}
	return name
}

// callSite evaluates the call-site assertions of the function under verification.
func (x *Exec) callSite(st *State, fr *Frame, kind, callee string, args, rets []Val, when string, at ssa.Instruction) {
	if x.fc == nil {
		return
	}
	root := st.frames[0]
	sp := shortPkg(x.fc.PkgPath)
	for k, ca := range x.fc.Calls {
		if ca.When != when || !(patternMatches(ca.Pattern, kind, callee, sp) || (x.siteAlias != "" && at != nil && patternMatches(ca.Pattern, kind, x.siteAlias, sp))) {
			continue
		}
		env := x.envFor(st, root)
		env.old = x.entry
		for i, a := range args {
			env.names[fmt.Sprintf("arg%d", i)] = a
		}
		for i, r := range rets {
			env.names[fmt.Sprintf("ret%d", i)] = r
		}
		if len(rets) == 1 {
			env.names["ret"] = rets[0]
		}
		// argument patterns become hypotheses of the assertion
		hyp := tTrue
		skip := false
		if ca.Pattern.Args != nil {
			if len(ca.Pattern.Args) != len(args) {
				continue
			}
			for i, pa := range ca.Pattern.Args {
				if pa == nil {
					continue
				}
				x.pure++
				pv, ok := env.eval(pa)
				x.pure--
				if !ok {
					x.unsupported("call pattern " + ca.Pattern.Src + ": " + env.err)
					skip = true
					break
				}
				eq := x.valEq(args[i], pv)
				if eq.S == "false" {
					skip = true
					break
				}
				hyp = tAnd(hyp, eq)
			}
		}
		if skip {
			continue
		}
		x.matched[k] = true
		name := fmt.Sprintf("%s/%s-%s:%s", x.fname, when, kind, labelOr(ca.Clause.Label, k))
		where := "call of " + callee
		if at != nil {
			where += " at " + x.P.pos(at.Pos())
		}
		if ca.Clause.Expr == nil {
			continue
		}
		if ca.Assume {
			t, ok := env.evalBool(ca.Clause.Expr)
			if !ok {
				x.unsupported(name + ": " + env.err)
				continue
			}
			x.trust("assumed at call site in " + x.fname + ": " + ca.Pattern.Src + " ==> " + ca.Clause.Src)
			x.assume(tImplies(hyp, t))
			continue
		}
		x.pure++
		t, ok := env.evalBool(ca.Clause.Expr)
		x.pure--
		if !ok {
			if env.missingEvent {
				x.prove(st, name, "call-site", ca.Pattern.Src+" assert "+ca.Clause.Src+"   ["+env.err+"]", tImplies(hyp, tFalse), where)
				continue
			}
			x.unsupported(name + ": " + env.err)
			continue
		}
		x.prove(st, name, "call-site", ca.Pattern.Src+" assert "+ca.Clause.Src, tImplies(hyp, t), where)
	}
}

func (x *Exec) addEvent(st *State, kind, callee string, args []Val) int {
	st.events = append(st.events, Event{Kind: kind, Callee: callee, Args: args, Seq: len(st.events)})
	return len(st.events) - 1
}

func (x *Exec) setRet(st *State, fr *Frame, retTo ssa.Value, rets []Val, ev int) {
	if ev >= 0 {
		st.events[ev].Rets = rets
	}
	if retTo == nil {
		return
	}
	switch len(rets) {
	case 0:
		fr.vals[retTo] = Val{K: KUnit}
	case 1:
		fr.vals[retTo] = rets[0]
	default:
		fr.vals[retTo] = Val{K: KTuple, Fs: rets, Typ: retTo.Type()}
	}
}

// doCall executes one call. Returns false if the path ends.
func (x *Exec) doCall(st *State, fr *Frame, at ssa.Instruction, cc *ssa.CallCommon, kind string, retTo ssa.Value, preArgs []Val, deferred bool) bool {
	args := preArgs
	if args == nil {
		args = x.callArgs(st, fr, cc)
	}
	callee := x.calleeName(st, fr, cc)
	if cc.IsInvoke() && len(args) > 0 && args[0].K == KIface {
		if f, _ := x.staticCallee(st, fr, cc); f != nil && len(f.Params) > 0 {
			// devirtualized: the receiver is the value inside the interface
			rt := f.Params[0].Type()
			if pt, ok := under(rt).(*types.Pointer); ok {
				args = append([]Val{{K: KPtr, Typ: rt, P: &Ptr{Kind: PObj, Base: args[0].Fs[1].T, Elem: pt.Elem()}}}, args[1:]...)
			}
		}
	}
	alias := ""
	if cc.IsInvoke() {
		if a := ifaceMethodName(cc); a != callee {
			alias = a
		}
	}
	x.siteAlias = alias
	x.callSite(st, fr, kind, callee, args, nil, "before", at)
	ev := x.addEvent(st, kind, callee, args)
	st.events[ev].Alias = alias
	if kind == "go" {
		// the goroutine is not executed (A1)
		return true
	}
	// builtins
	if b, ok := cc.Value.(*ssa.Builtin); ok && !cc.IsInvoke() {
		rets := x.builtin(st, fr, b, cc, args, retTo)
		x.setRet(st, fr, retTo, rets, ev)
		return true
	}
	// reflect.ValueOf(x).IsNil(): nil-ness of the pointer inside an interface value
	if callee == "reflect.ValueOf" && len(args) == 1 && args[0].K == KIface {
		v := args[0]
		v.Typ = nil
		x.setRet(st, fr, retTo, []Val{{K: KTuple, Fs: []Val{v}, Typ: nil}}, ev)
		x.trust("library-model reflect.ValueOf(x).IsNil() is true iff x holds a nil pointer (or is nil)")
		return true
	}
	if callee == "(reflect.Value).IsNil" && len(args) == 1 && args[0].K == KTuple && len(args[0].Fs) == 1 && args[0].Fs[0].K == KIface {
		x.setRet(st, fr, retTo, []Val{scalar(tEq(args[0].Fs[0].Fs[1].T, tZero), types.Typ[types.Bool])}, ev)
		return true
	}
	if callee == "fmt.Sprintf" && len(args) == 2 {
		if t, ok := x.sprintfModel(args[0], args[1]); ok {
			x.trust("library-model fmt.Sprintf with a literal format of %s/%d/%v verbs is concatenation (itoa uninterpreted)")
			x.setRet(st, fr, retTo, []Val{scalar(t, types.Typ[types.String])}, ev)
			x.callSite(st, fr, kind, callee, args, []Val{scalar(t, types.Typ[types.String])}, "after", at)
			return true
		}
	}
	if x.sortCall(st, fr, callee, args) {
		x.setRet(st, fr, retTo, nil, ev)
		x.callSite(st, fr, kind, callee, args, nil, "after", at)
		return true
	}
	sig := cc.Signature()
	var resTypes []types.Type
	for i := 0; i < sig.Results().Len(); i++ {
		resTypes = append(resTypes, sig.Results().At(i).Type())
	}
	fn, binds := x.staticCallee(st, fr, cc)
	var fc *FuncContract
	if c := x.P.C.Funcs[callee]; c != nil {
		fc = c
	} else if i := strings.Index(callee, "["); i > 0 && strings.HasSuffix(callee, "]") {
		fc = x.P.C.Funcs[callee[:i]] // instance of a generic function: the contract of its origin
	}
	// inline: flagged helpers and synthetic wrappers
	if fn != nil && len(fn.Blocks) > 0 && len(st.frames) < 6 {
		if (fc != nil && fc.Inline) || (fc == nil && fn.Synthetic != "" && !strings.HasPrefix(fn.Synthetic, "instance of")) {
			if fc != nil {
				x.trust("inline " + callee)
			}
			nf := x.newFrame(st, fn, nil, args, binds)
			nf.retTo = retTo
			nf.eventIdx = ev
			nf.afterSite, nf.afterKind, nf.afterCallee, nf.afterArgs = at, kind, callee, args
			st.frames = append(st.frames, nf)
			return true
		}
	}
	if fc != nil && fc.Callback != "" {
		if x.doCallback(st, fr, fc, callee, fn, sig, args, resTypes, retTo, ev, at, kind) {
			return true
		}
	}
	if fc != nil && !fc.Inline {
		rets := x.applyContract(st, fr, fc, callee, fn, sig, cc, args, resTypes, at)
		x.setRet(st, fr, retTo, rets, ev)
		x.callSite(st, fr, kind, callee, args, rets, "after", at)
		return true
	}
	// no contract: computed effects for repository code, policy for libraries
	eff := newEffect()
	switch {
	case fn != nil && len(fn.Blocks) > 0 && x.P.inRepo(fn):
		eff = x.P.funcEffects(fn, 0)
		x.trust("computed-effects " + callee)
	case fn != nil:
		x.P.externalDefaultEffect(fn, cc, eff)
		x.trust("library-default " + callee)
	default:
		eff.all = true
		x.trust("havoc-all " + callee)
	}
	if eff.all {
		debugf("havoc-all at call of %s in %s", callee, x.fname)
	}
	e2 := newEffect()
	e2.merge(eff)
	x.havocEffect(st, fr, e2)
	// a closure passed to (or called by) an unknown callee may write the captured cells
	for _, a := range args {
		x.havocCaptured(st, a)
	}
	var rets []Val
	for i, rt := range resTypes {
		rets = append(rets, x.freshVal(st, rt, fmt.Sprintf("ret!%s!%d", shortName(callee), i)))
	}
	x.setRet(st, fr, retTo, rets, ev)
	x.callSite(st, fr, kind, callee, args, rets, "after", at)
	return true
}

func shortName(s string) string {
	if i := strings.LastIndexAny(s, "./)"); i >= 0 && i+1 < len(s) {
		return s[i+1:]
	}
	return s
}

// havocCaptured: variables captured by a closure value that escapes into a call.
func (x *Exec) havocCaptured(st *State, v Val) {
	if v.K != KClosure {
		return
	}
	for i, b := range v.Binds {
		if b.K != KPtr {
			continue
		}
		if onlyLoaded(v.Fn.FreeVars[i]) {
			// the closure (and whatever it calls) can only read this variable
			continue
		}
		t := deref(v.Fn.FreeVars[i].Type())
		if b.P.Kind == PCell {
			st.cells[b.P.Cell] = x.freshVal(st, t, "captured")
			continue
		}
		x.storePtr(st, b.P, t, x.freshVal(st, t, "captured!"+v.Fn.FreeVars[i].Name()))
	}
}

// onlyLoaded: every use of the captured variable inside the closure is a load (no store, no escape
// into a call, a nested closure or another value).
func onlyLoaded(fv *ssa.FreeVar) bool {
	refs := fv.Referrers()
	if refs == nil {
		return false
	}
	for _, r := range *refs {
		if u, ok := r.(*ssa.UnOp); ok && u.Op == token.MUL {
			continue
		}
		if _, ok := r.(*ssa.DebugRef); ok {
			continue
		}
		return false
	}
	return true
}

// applyContract: assert requires, havoc modifies, assume ensures.
func (x *Exec) applyContract(st *State, fr *Frame, fc *FuncContract, callee string, fn *ssa.Function, sig *types.Signature, cc *ssa.CallCommon, args []Val, resTypes []types.Type, at ssa.Instruction) []Val {
	if fc.Trusted || fc.PkgPath == "" {
		x.trust("trusted-contract " + callee)
	} else {
		x.trust("contract " + callee)
	}
	env := &Env{x: x, st: st, names: map[string]Val{}, pkg: x.P.pkgOf(fc.PkgPath)}
	// parameter names
	var pnames []string
	if fn != nil {
		for _, p := range fn.Params {
			pnames = append(pnames, p.Name())
		}
	} else {
		if cc.IsInvoke() {
			pnames = append(pnames, "self")
		} else if sig.Recv() != nil {
			pnames = append(pnames, sig.Recv().Name())
		}
		for i := 0; i < sig.Params().Len(); i++ {
			pnames = append(pnames, sig.Params().At(i).Name())
		}
	}
	for i, a := range args {
		if i < len(pnames) && pnames[i] != "" && pnames[i] != "_" {
			env.names[pnames[i]] = a
		}
		env.names[fmt.Sprintf("arg%d", i)] = a
	}
	if cc.IsInvoke() && len(args) > 0 {
		env.names["self"] = args[0]
	}
	where := "call of " + callee + " at " + x.P.pos(at.Pos())
	for k, r := range fc.Requires {
		x.proveClause(st, env, r, fmt.Sprintf("%s/pre:%s:%s", x.fname, callee, labelOr(r.Label, k)), "precondition", where)
	}
	old := x.view(st)
	// pure stable functions: uninterpreted function of the arguments
	var rets []Val
	if fc.Pure {
		for i, rt := range resTypes {
			ls := leavesOf(rt)
			if ls == nil {
				rets = append(rets, x.freshVal(st, rt, "ret"))
				continue
			}
			var argTerms []Term
			for _, a := range args {
				argTerms = append(argTerms, x.flatTerms(a)...)
			}
			if !fc.Stable {
				argTerms = append(argTerms, x.heapStamp(st))
			}
			v := x.valFromLeaves(rt, func(l leaf) Term {
				return x.uf(fmt.Sprintf("pure!%s!%d%s", callee, i, l.suffix), l.sort, argTerms...)
			})
			x.typeFacts(st, v, rt, st.water)
			rets = append(rets, v)
		}
	} else {
		// havoc
		if !fc.HasModifies || fc.ModAll {
			x.havocAll(st)
		} else {
			x.bumpWater(st)
			// all locations are evaluated in the pre-state, then forgotten
			var all []modLoc
			failed := false
			for _, m := range fc.Modifies {
				x.pure++
				locs, ok := env.evalModifies(m)
				x.pure--
				if !ok {
					x.unsupported("modifies of " + callee + ": " + env.err)
					failed = true
					break
				}
				all = append(all, locs...)
			}
			if failed {
				x.havocAll(st)
			} else {
				for _, l := range all {
					x.havocLoc(st, l)
				}
			}
		}
		for i, rt := range resTypes {
			rets = append(rets, x.freshVal(st, rt, fmt.Sprintf("ret!%s!%d", shortName(callee), i)))
		}
	}
	env.old = old
	if fn != nil {
		x.bindResults(env, fn.Signature, rets)
	} else {
		x.bindResults(env, sig, rets)
	}
	for _, e := range fc.Ensures {
		if e.Expr == nil {
			continue
		}
		t, ok := env.evalBool(e.Expr)
		if !ok {
			x.unsupported("ensures of " + callee + " (" + e.Src + "): " + env.err)
			continue
		}
		x.assume(t)
	}
	return rets
}

// heapStamp: a term that changes whenever any heap changes (for pure, non-stable functions).
func (x *Exec) heapStamp(st *State) Term {
	return intLit(int64(st.gen*100000 + len(st.events)))
}

func (x *Exec) flatTerms(v Val) []Term {
	switch v.K {
	case KScalar:
		return []Term{v.T}
	case KPtr, KClosure:
		return []Term{x.ptrTerm(v)}
	case KNil:
		return []Term{tNil}
	case KSlice, KIface, KStruct, KTuple:
		var out []Term
		for _, f := range v.Fs {
			out = append(out, x.flatTerms(f)...)
		}
		return out
	}
	return nil
}

type modLoc struct {
	key  string
	sort string
	idx  []Term // nil: the whole key; len 1: one object; len 2 with idx[1] meaningful: one element
	arrOnly bool // elems(s): all elements of one backing array
}

func (x *Exec) havocLoc(st *State, l modLoc) {
	h := x.heapTerm(nil, st, l.key, l.sort)
	switch {
	case l.idx == nil:
		x.heapHavocKey(st, l.key, l.sort)
	case len(l.idx) == 1:
		f := x.fresh("hv", arrElem(l.sort))
		x.heapSet(st, l.key, tStore(h.T, l.idx[0], f))
	default:
		f := x.fresh("hv", arrElem(arrElem(l.sort)))
		x.heapSet(st, l.key, upd(h.T, l.idx, f))
	}
}

// ---------------------------------------------------------------------------
// Builtins

func (x *Exec) builtin(st *State, fr *Frame, b *ssa.Builtin, cc *ssa.CallCommon, args []Val, retTo ssa.Value) []Val {
	switch b.Name() {
	case "len":
		return []Val{scalar(x.lenOf(st, args[0], cc.Args[0].Type()), types.Typ[types.Int])}
	case "cap":
		if args[0].K == KSlice {
			return []Val{scalar(args[0].Fs[3].T, types.Typ[types.Int])}
		}
		return []Val{x.freshVal(st, types.Typ[types.Int], "cap")}
	case "append":
		return []Val{x.appendOp(st, args[0], args[1], cc.Args[0].Type(), cc.Args[1].Type())}
	case "copy":
		return []Val{scalar(x.copyOp(st, args[0], args[1], cc.Args[0].Type(), cc.Args[1].Type()), types.Typ[types.Int])}
	case "delete":
		if mt, ok := under(cc.Args[0].Type()).(*types.Map); ok && scalarSort(mt.Key()) != "" {
			x.mapStore(st, mt, args[0].T, x.keyTerm(args[1]), Val{}, false)
		}
		return nil
	case "close", "print", "println", "ssa:wrapnilchk":
		if b.Name() == "ssa:wrapnilchk" {
			return []Val{args[0]}
		}
		return nil
	case "ssa:deferstack":
		return []Val{{K: KUnit}}
	case "min", "max":
		r := args[0].T
		for _, a := range args[1:] {
			op := "<="
			if b.Name() == "max" {
				op = ">="
			}
			r = tIte(app(sBool, op, r, a.T), r, a.T)
		}
		return []Val{scalar(r, args[0].Typ)}
	case "recover":
		return []Val{x.zeroVal(types.NewInterfaceType(nil, nil))}
	}
	x.unsupported("builtin " + b.Name())
	if retTo != nil {
		return []Val{x.freshVal(st, retTo.Type(), "builtin")}
	}
	return nil
}

func (x *Exec) lenOf(st *State, v Val, t types.Type) Term {
	switch v.K {
	case KSlice:
		return v.Fs[2].T
	case KNil:
		return tZero
	case KScalar:
		if v.T.Sort == sStr {
			return app(sInt, "str.len", v.T)
		}
		if mt, ok := under(t).(*types.Map); ok && scalarSort(mt.Key()) != "" {
			// the length of a map is a function of its key set: unchanged key set, unchanged length
			ks := scalarSort(mt.Key())
			pk := mapHeapKey(mt, "#present")
			ph := x.heapTerm(x.lenView, st, pk, arrSort(sInt, arrSort(ks, sBool)))
			fn := sym("maplen!" + ks)
			x.decl(fn, "(declare-fun "+fn+" ("+arrSort(ks, sBool)+") Int)")
			x.decl(fn+"!ax", "(assert (forall ((ms "+arrSort(ks, sBool)+")) (! (<= 0 ("+fn+" ms)) :pattern (("+fn+" ms)))))")
			return tIte(tEq(v.T, tNil), tZero, app(sInt, fn, tSelect(ph.T, v.T)))
		}
	}
	n := x.fresh("len", sInt)
	x.assume(app(sBool, "<=", tZero, n))
	return n
}

// appendOp: in-place when capacity suffices, otherwise a fresh backing array holding a copy.
func (x *Exec) appendOp(st *State, s, t Val, sT, tT types.Type) Val {
	stt, ok := under(sT).(*types.Slice)
	if !ok {
		x.unsupported("append to " + typeName(sT))
		return x.freshVal(st, sT, "append")
	}
	if s.K == KNil {
		s = x.zeroVal(sT)
	}
	if t.K == KNil {
		return s
	}
	et := stt.Elem()
	arr, off, ln, cp := s.Fs[0].T, s.Fs[1].T, s.Fs[2].T, s.Fs[3].T
	// appended length
	var n Term
	if t.K == KSlice {
		n = t.Fs[2].T
	} else if t.K == KScalar && t.T.Sort == sStr {
		n = app(sInt, "str.len", t.T)
	} else {
		x.unsupported("append of " + t.String())
		return x.freshVal(st, sT, "append")
	}
	if n.S == "0" {
		return s
	}
	newLen := x.name("alen", app(sInt, "+", ln, n))
	fits := app(sBool, "<=", newLen, cp)
	r := x.fresh("append!arr", sInt)
	x.assume(tAnd(app(sBool, ">=", r, st.water), app(sBool, ">", r, tZero)))
	st.water = x.name("W", app(sInt, "+", r, intLit(1)))
	ncap := x.fresh("append!cap", sInt)
	x.assume(app(sBool, ">=", ncap, newLen))
	arr2 := x.name("aarr", tIte(fits, arr, r))
	cap2 := x.name("acap", tIte(fits, cp, ncap))
	_, isStruct := structOf(et)
	if isStruct {
		// element structs live at ep(arr, idx): contents of the new cells are unknown
		x.unsupported("append to a slice of struct values")
		return Val{K: KSlice, Typ: sT, Fs: []Val{scalar(arr2, nil), scalar(off, nil), scalar(newLen, nil), scalar(cap2, nil)}}
	}
	constN := -1
	if isNumLit(n.S) && len(n.S) < 3 && !strings.HasPrefix(n.S, "(") {
		fmt.Sscanf(n.S, "%d", &constN)
	}
	for _, l := range leavesOf(et) {
		k := elemKey(et, l.suffix)
		srt := keySort(k, l.sort)
		h := x.heapTerm(nil, st, k, srt)
		inner := tSelect(h.T, arr)
		if constN >= 0 && constN <= 8 && t.K == KSlice {
			for j := 0; j < constN; j++ {
				src := tSelect(tSelect(h.T, t.Fs[0].T), x.idx(t.Fs[1].T, intLit(int64(j))))
				inner = tStore(inner, x.idx(off, x.add(ln, intLit(int64(j)))), src)
			}
		} else {
			// unknown number of elements: fresh tail, old prefix kept
			f := x.fresh("append!inner", arrElem(srt))
			q := fmt.Sprintf("(forall ((ai Int)) (! (=> (and (<= %s ai) (< ai (+ %s %s))) (= (select %s ai) (select %s ai))) :pattern ((select %s ai))))", off.S, off.S, ln.S, f.S, inner.S, f.S)
			x.assume(Term{q, sBool})
			if t.K == KSlice {
				q2 := fmt.Sprintf("(forall ((ai Int)) (! (=> (and (<= 0 ai) (< ai %s)) (= (select %s (+ %s %s ai)) (select (select %s %s) (+ %s ai)))) :pattern ((select %s (+ %s %s ai)))))", n.S, f.S, off.S, ln.S, h.T.S, t.Fs[0].T.S, t.Fs[1].T.S, f.S, off.S, ln.S)
				x.assume(Term{q2, sBool})
			}
			inner = f
		}
		x.heapSet(st, k, tStore(h.T, arr2, inner))
	}
	return Val{K: KSlice, Typ: sT, Fs: []Val{scalar(arr2, nil), scalar(off, nil), scalar(newLen, nil), scalar(cap2, nil)}}
}

// copyOp: memmove semantics on the element heaps.
func (x *Exec) copyOp(st *State, d, s Val, dT, sT types.Type) Term {
	dtt, ok := under(dT).(*types.Slice)
	if !ok || d.K != KSlice {
		x.unsupported("copy into " + typeName(dT))
		return x.fresh("copied", sInt)
	}
	var sl Term
	switch {
	case s.K == KSlice:
		sl = s.Fs[2].T
	case s.K == KScalar && s.T.Sort == sStr:
		sl = app(sInt, "str.len", s.T)
	default:
		return tZero
	}
	n := x.name("ncopy", tIte(app(sBool, "<=", d.Fs[2].T, sl), d.Fs[2].T, sl))
	et := dtt.Elem()
	if _, isStruct := structOf(et); isStruct {
		x.unsupported("copy of struct elements")
		return n
	}
	for _, l := range leavesOf(et) {
		k := elemKey(et, l.suffix)
		srt := keySort(k, l.sort)
		h := x.heapTerm(nil, st, k, srt)
		f := x.fresh("copy!inner", arrElem(srt))
		oldInner := tSelect(h.T, d.Fs[0].T)
		doff := d.Fs[1].T
		if s.K == KSlice {
			srcInner := tSelect(h.T, s.Fs[0].T)
			soff := s.Fs[1].T
			q := fmt.Sprintf("(forall ((ci Int)) (! (= (select %s ci) (ite (and (<= %s ci) (< ci (+ %s %s))) (select %s (+ %s (- ci %s))) (select %s ci))) :pattern ((select %s ci))))",
				f.S, doff.S, doff.S, n.S, srcInner.S, soff.S, doff.S, oldInner.S, f.S)
			x.assume(Term{q, sBool})
		} else {
			q := fmt.Sprintf("(forall ((ci Int)) (! (=> (not (and (<= %s ci) (< ci (+ %s %s)))) (= (select %s ci) (select %s ci))) :pattern ((select %s ci))))",
				doff.S, doff.S, n.S, f.S, oldInner.S, f.S)
			x.assume(Term{q, sBool})
		}
		x.heapSet(st, k, tStore(h.T, d.Fs[0].T, f))
	}
	return n
}

var libPathRe = regexp.MustCompile(`[A-Za-z0-9_.\-]+/`)

func shortLib(name string) string { return libPathRe.ReplaceAllString(name, "") }

// doCallback models a higher-order library function that calls a function-typed argument any number
// of times (filepath.Walk, cache.Iterate): the state is havocked by the effects of the callback, then
// either the callee returns or one more (arbitrary) invocation of the callback is executed in the
// context of the caller, followed by another havoc. Obligations inside the callback are those of the
// function under verification; names resolve lexically through the enclosing frames.
func (x *Exec) doCallback(st *State, fr *Frame, fc *FuncContract, callee string, fn *ssa.Function, sig *types.Signature, args []Val, resTypes []types.Type, retTo ssa.Value, ev int, at ssa.Instruction, kind string) bool {
	idx := -1
	if n, err := strconv.Atoi(fc.Callback); err == nil {
		// by position among the declared parameters (interface methods often leave them unnamed)
		idx = n + len(args) - sig.Params().Len()
	} else if fn != nil {
		for i, p := range fn.Params {
			if p.Name() == fc.Callback {
				idx = i
			}
		}
	} else {
		off := len(args) - sig.Params().Len() // 1 for method calls and interface invokes
		for i := 0; i < sig.Params().Len(); i++ {
			if sig.Params().At(i).Name() == fc.Callback {
				idx = i + off
			}
		}
	}
	if idx < 0 || idx >= len(args) || args[idx].K != KClosure || len(args[idx].Fn.Blocks) == 0 || len(st.frames) >= 5 {
		return false
	}
	cl := args[idx]
	x.trust("callback " + callee + " runs its argument " + fc.Callback + " in the caller's context (one arbitrary invocation between havocs)")
	eff := newEffect()
	eff.merge(x.P.funcEffects(cl.Fn, 0))
	x.havocEffect(st, fr, eff)
	x.havocCaptured(st, cl)
	fresh := func(s *State) []Val {
		var rets []Val
		for i, rt := range resTypes {
			rets = append(rets, x.freshVal(s, rt, fmt.Sprintf("ret!%s!%d", shortName(callee), i)))
		}
		return rets
	}
	// continuation A: no further invocation
	x.sess.Push()
	st2 := st.clone()
	ens := x.cbEnsurer(fc, callee, fn, sig, args)
	r2 := fresh(st2)
	ens(st2, r2)
	x.setRet(st2, st2.top(), retTo, r2, ev)
	x.run(st2)
	x.popScope()
	// continuation B: one arbitrary invocation, havoc, return
	nf := x.newFrame(st, cl.Fn, nil, nil, cl.Binds)
	nf.eventIdx = -1
	nf.cbEffect, nf.cbClosure, nf.cbRetTo, nf.cbResTypes, nf.cbCallee, nf.cbEvent = eff, cl, retTo, resTypes, callee, ev
	nf.cbEnsure = ens
	st.frames = append(st.frames, nf)
	return true
}

// cbEnsurer: the postconditions of a higher-order callee under the callback model; they speak about
// its arguments and results only (no old state).
func (x *Exec) cbEnsurer(fc *FuncContract, callee string, fn *ssa.Function, sig *types.Signature, args []Val) func(*State, []Val) {
	return func(s *State, rets []Val) {
		if len(fc.Ensures) == 0 {
			return
		}
		env := &Env{x: x, st: s, names: map[string]Val{}, pkg: x.P.pkgOf(fc.PkgPath)}
		var pnames []string
		if fn != nil {
			for _, p := range fn.Params {
				pnames = append(pnames, p.Name())
			}
		} else {
			if sig.Recv() != nil {
				pnames = append(pnames, sig.Recv().Name())
			}
			for i := 0; i < sig.Params().Len(); i++ {
				pnames = append(pnames, sig.Params().At(i).Name())
			}
		}
		for i, a := range args {
			if i < len(pnames) && pnames[i] != "" && pnames[i] != "_" {
				env.names[pnames[i]] = a
			}
			env.names[fmt.Sprintf("arg%d", i)] = a
		}
		env.old = x.view(s)
		if fn != nil {
			x.bindResults(env, fn.Signature, rets)
		} else {
			x.bindResults(env, sig, rets)
		}
		for _, e := range fc.Ensures {
			if e.Expr == nil {
				continue
			}
			t, ok := env.evalBool(e.Expr)
			if !ok {
				x.unsupported("ensures of " + callee + " (" + e.Src + "): " + env.err)
				continue
			}
			x.assume(t)
		}
	}
}

// sortCall models sort.Sort/Stable/Slice/SliceStable on a boxed slice: the elements of the slice are
// permuted (here: forgotten); nothing else changes. What the order means afterwards is stated by the
// caller with `after call sort.Sort assume ...` (trusted: the sort yields an ordered permutation).
func (x *Exec) sortCall(st *State, fr *Frame, callee string, args []Val) bool {
	switch callee {
	case "sort.Sort", "sort.Stable", "sort.Slice", "sort.SliceStable":
	default:
		return false
	}
	if len(args) == 0 || args[0].K != KIface {
		return false
	}
	b, ok := x.boxed[args[0].Fs[1].T.S]
	if !ok {
		return false
	}
	stt, ok := under(b.Typ).(*types.Slice)
	if !ok {
		return false
	}
	x.trust("library-model " + callee + " permutes the elements of its slice argument and changes nothing else")
	keys := map[string]string{}
	keysOfElem(stt.Elem(), keys)
	if _, isStruct := structOf(stt.Elem()); isStruct {
		for _, k := range sortedKeys(keys) {
			x.heapHavocKey(st, k, keys[k])
		}
		return true
	}
	for _, k := range sortedKeys(keys) {
		h := x.heapTerm(nil, st, k, keys[k])
		f := x.fresh("sorted", arrElem(keys[k]))
		x.heapSet(st, k, tStore(h.T, b.Fs[0].T, f))
		if strings.HasSuffix(k, "^") {
			x.assume(Term{fmt.Sprintf("(forall ((si Int)) (! (< (select %s si) %s) :pattern ((select %s si))))", f.S, st.water.S, f.S), sBool})
		}
	}
	return true
}

// sprintfModel: fmt.Sprintf with a literal format string made of text and the verbs %s %d %v, applied
// to strings and integers, is the concatenation of the pieces (integers through the uninterpreted itoa).
func (x *Exec) sprintfModel(format, va Val) (Term, bool) {
	if format.K != KScalar || !isStrLit(format.T.S) || va.K != KSlice {
		return Term{}, false
	}
	f := format.T.S[1 : len(format.T.S)-1]
	if strings.Contains(f, "\\u{") || strings.Contains(f, `""`) {
		return Term{}, false
	}
	elems, ok := x.varargs[va.Fs[0].T.S]
	if !ok {
		return Term{}, false
	}
	var parts []Term
	lit := ""
	argi := 0
	flush := func() {
		if lit != "" {
			parts = append(parts, strLit(lit))
			lit = ""
		}
	}
	for i := 0; i < len(f); i++ {
		if f[i] != '%' {
			lit += string(f[i])
			continue
		}
		if i+1 >= len(f) {
			return Term{}, false
		}
		i++
		switch f[i] {
		case '%':
			lit += "%"
		case 's', 'd', 'v':
			v, ok := elems[argi]
			argi++
			if !ok || v.K != KScalar {
				return Term{}, false
			}
			flush()
			switch v.T.Sort {
			case sStr:
				parts = append(parts, v.T)
			case sInt:
				parts = append(parts, x.uf("itoa", sStr, v.T))
			default:
				return Term{}, false
			}
		default:
			return Term{}, false
		}
	}
	flush()
	if argi != len(elems) {
		return Term{}, false
	}
	switch len(parts) {
	case 0:
		return strLit(""), true
	case 1:
		return parts[0], true
	}
	return app(sStr, "str.++", parts...), true
}
