package main

// Loops and a conservative, type-based modifies analysis (which heap keys and which
// local cells a block set or a function may write).

import (
	"go/ast"
	"go/types"
	"sort"

	"golang.org/x/tools/go/ssa"
)

type loopInfo struct {
	heads []*ssa.BasicBlock                         // in source order
	ord   map[*ssa.BasicBlock]int                   // head -> ordinal
	body  map[*ssa.BasicBlock]map[*ssa.BasicBlock]bool // head -> blocks (incl. head)
}

func computeLoops(fn *ssa.Function) *loopInfo {
	li := &loopInfo{ord: map[*ssa.BasicBlock]int{}, body: map[*ssa.BasicBlock]map[*ssa.BasicBlock]bool{}}
	for _, b := range fn.Blocks {
		for _, s := range b.Succs {
			if s.Dominates(b) {
				set := li.body[s]
				if set == nil {
					set = map[*ssa.BasicBlock]bool{s: true}
					li.body[s] = set
				}
				// nodes reaching b without passing through s
				var stack []*ssa.BasicBlock
				if !set[b] {
					set[b] = true
					stack = append(stack, b)
				}
				for len(stack) > 0 {
					n := stack[len(stack)-1]
					stack = stack[:len(stack)-1]
					for _, p := range n.Preds {
						if !set[p] {
							set[p] = true
							stack = append(stack, p)
						}
					}
				}
			}
		}
	}
	for h := range li.body {
		li.heads = append(li.heads, h)
	}
	sort.Slice(li.heads, func(i, j int) bool { return li.heads[i].Index < li.heads[j].Index })
	for i, h := range li.heads {
		li.ord[h] = i
	}
	return li
}

type effect struct {
	all   bool
	// other: keys written through something else than a temporary object allocated by the same code
	// (a key in `keys` but not in `other` is written through fresh objects only: older objects keep
	// their contents, which the loop havoc states as a frame hypothesis)
	other map[string]bool
	keys  map[string]string
	cells map[*ssa.Alloc]bool
	alloc bool
}

func newEffect() *effect {
	return &effect{keys: map[string]string{}, cells: map[*ssa.Alloc]bool{}, other: map[string]bool{}}
}

func (e *effect) merge(o *effect) {
	if o.all {
		e.all = true
	}
	if o.alloc {
		e.alloc = true
	}
	for k, v := range o.keys {
		e.keys[k] = v
	}
	for k := range o.other {
		e.other[k] = true
	}
}

func deref(t types.Type) types.Type {
	if p, ok := under(t).(*types.Pointer); ok {
		return p.Elem()
	}
	return t
}

func rootAlloc(v ssa.Value) *ssa.Alloc {
	for {
		switch a := v.(type) {
		case *ssa.Alloc:
			return a
		case *ssa.FieldAddr:
			v = a.X
		case *ssa.IndexAddr:
			if _, ok := under(a.X.Type()).(*types.Pointer); ok {
				v = a.X
			} else {
				return nil
			}
		default:
			return nil
		}
	}
}

func (P *Program) addrEffect(addr ssa.Value, e *effect) {
	if ra := rootAlloc(addr); ra != nil && !ra.Heap {
		e.cells[ra] = true
		return
	}
	switch a := addr.(type) {
	case *ssa.FieldAddr:
		keysOfField(deref(a.X.Type()), a.Field, e.keys)
	case *ssa.IndexAddr:
		switch xt := under(a.X.Type()).(type) {
		case *types.Slice:
			keysOfElem(xt.Elem(), e.keys)
		case *types.Pointer:
			if at, ok := under(xt.Elem()).(*types.Array); ok {
				keysOfElem(at.Elem(), e.keys)
			}
		}
	default:
		keysOfPointee(deref(addr.Type()), e.keys)
	}
}

// funcEffects: memoized effect of calling fn (heap keys only).
func (P *Program) funcEffects(fn *ssa.Function, depth int) *effect {
	if depth == 0 {
		// functions are verified concurrently; the memo (with its in-progress markers) is shared
		P.effMu.Lock()
		defer P.effMu.Unlock()
	}
	return P.funcEffects1(fn, depth)
}

func (P *Program) funcEffects1(fn *ssa.Function, depth int) *effect {
	if e, ok := P.effMemo[fn]; ok {
		if e == nil { // in progress: recursion
			r := newEffect()
			r.all = true
			return r
		}
		return e
	}
	if depth > 8 || len(fn.Blocks) == 0 {
		r := newEffect()
		r.all = true
		return r
	}
	P.effMemo[fn] = nil
	e := newEffect()
	P.blocksEffect(fn, fn.Blocks, e, depth)
	e.cells = map[*ssa.Alloc]bool{}
	P.effMemo[fn] = e
	return e
}

func isTempAlloc(a *ssa.Alloc) bool {
	switch a.Comment {
	case "complit", "varargs", "new", "makeslice":
		return a.Heap
	}
	return false
}

func (P *Program) blocksEffect(fn *ssa.Function, blocks []*ssa.BasicBlock, e0 *effect, depth int) {
	for _, b := range blocks {
		for _, in := range b.Instrs {
			// effects of one instruction; writes that are not provably to a fresh temporary go to `other`
			e := newEffect()
			fresh := false
			switch i := in.(type) {
			case *ssa.Store:
				if ra := rootAlloc(i.Addr); ra != nil && isTempAlloc(ra) {
					fresh = true
				}
			case *ssa.Alloc:
				fresh = isTempAlloc(i)
			}
			defer func(e *effect, fresh bool) {
				if e.all {
					e0.all = true
				}
				if e.alloc {
					e0.alloc = true
				}
				for k, v := range e.keys {
					e0.keys[k] = v
					if !fresh {
						e0.other[k] = true
					}
				}
				for k := range e.other {
					e0.other[k] = true
				}
				for c := range e.cells {
					e0.cells[c] = true
				}
			}(e, fresh)
			switch i := in.(type) {
			case *ssa.Store:
				P.addrEffect(i.Addr, e)
			case *ssa.MapUpdate:
				if mt, ok := under(i.Map.Type()).(*types.Map); ok {
					mapKeys(mt, e.keys)
				}
			case *ssa.Alloc:
				if i.Heap {
					e.alloc = true
					keysOfPointee(deref(i.Type()), e.keys)
				}
			case *ssa.MakeSlice, *ssa.MakeMap, *ssa.MakeChan, *ssa.MakeClosure:
				e.alloc = true
			case *ssa.Call:
				P.callEffect(&i.Call, e, depth)
			case *ssa.Defer:
				P.callEffect(&i.Call, e, depth)
			case *ssa.Send, *ssa.Select:
				// channels carry no modelled state
			}
		}
	}
}

func (P *Program) callEffect(cc *ssa.CallCommon, e *effect, depth int) {
	if cc.IsInvoke() {
		name := ifaceMethodName(cc)
		if fc := P.C.Funcs[name]; fc != nil {
			P.contractEffect(fc, cc.Signature(), cc.Value.Type(), e)
			return
		}
		e.all = true
		return
	}
	switch f := cc.Value.(type) {
	case *ssa.Builtin:
		switch f.Name() {
		case "append":
			e.alloc = true
			if st, ok := under(cc.Args[0].Type()).(*types.Slice); ok {
				keysOfElem(st.Elem(), e.keys)
			}
		case "copy":
			if st, ok := under(cc.Args[0].Type()).(*types.Slice); ok {
				keysOfElem(st.Elem(), e.keys)
			}
		case "delete", "clear":
			if mt, ok := under(cc.Args[0].Type()).(*types.Map); ok {
				mapKeys(mt, e.keys)
			}
		}
		return
	case *ssa.Function:
		P.staticCallEffect(f, cc, e, depth)
		return
	case *ssa.MakeClosure:
		P.staticCallEffect(f.Fn.(*ssa.Function), cc, e, depth)
		return
	}
	// dynamic call
	if fc := P.C.Funcs["dyn:"+dynName(cc.Value)]; fc != nil {
		P.contractEffect(fc, cc.Signature(), nil, e)
		return
	}
	e.all = true
}

func (P *Program) staticCallEffect(f *ssa.Function, cc *ssa.CallCommon, e *effect, depth int) {
	name := normName(f.String())
	if fc := P.C.Funcs[name]; fc != nil && !fc.Inline {
		P.contractEffect(fc, f.Signature, nil, e)
		return
	}
	if P.inRepo(f) || f.Synthetic != "" {
		if len(f.Blocks) > 0 {
			e.merge(P.funcEffects1(f, depth+1))
			return
		}
	}
	P.externalDefaultEffect(f, cc, e)
}

// externalDefaultEffect: policy for library functions without a trusted contract.
func (P *Program) externalDefaultEffect(f *ssa.Function, cc *ssa.CallCommon, e *effect) {
	e.alloc = true
	sig := f.Signature
	check := func(t types.Type) {
		switch u := under(t).(type) {
		case *types.Pointer:
			keysOfPointee(u.Elem(), e.keys)
		case *types.Slice:
			keysOfElem(u.Elem(), e.keys)
		case *types.Map:
			mapKeys(u, e.keys)
		case *types.Interface:
			// a value behind an interface may be a pointer to anything (json.Unmarshal(data, &v),
			// errors.As(err, &target), io.Writer ...): the callee may write what it points to
			e.all = true
		case *types.Signature:
			e.all = true
		}
	}
	if sig.Recv() != nil {
		check(sig.Recv().Type())
	}
	for i := 0; i < sig.Params().Len(); i++ {
		pt := sig.Params().At(i).Type()
		if sig.Variadic() && i == sig.Params().Len()-1 {
			if st, ok := under(pt).(*types.Slice); ok {
				if it, ok := under(st.Elem()).(*types.Interface); ok && it.NumMethods() == 0 {
					continue // ...interface{} (formatting / logging)
				}
			}
		}
		check(pt)
	}
}

// contractEffect: keys named by the modifies clause of a contract.
func (P *Program) contractEffect(fc *FuncContract, sig *types.Signature, recvIface types.Type, e *effect) {
	if fc.Pure {
		return
	}
	if !fc.HasModifies || fc.ModAll {
		e.all = true
		return
	}
	e.alloc = true
	env := map[string]types.Type{"$pkg": &pkgMarker{path: fc.PkgPath}}
	if sig.Recv() != nil {
		env[sig.Recv().Name()] = sig.Recv().Type()
		env["self"] = sig.Recv().Type()
	}
	if recvIface != nil {
		env["self"] = recvIface
	}
	for i := 0; i < sig.Params().Len(); i++ {
		env[sig.Params().At(i).Name()] = sig.Params().At(i).Type()
	}
	for i := 0; i < sig.Results().Len(); i++ {
		if n := sig.Results().At(i).Name(); n != "" {
			env[n] = sig.Results().At(i).Type()
		}
	}
	if sig.Results().Len() == 1 {
		env["result"] = sig.Results().At(0).Type()
	}
	for _, m := range fc.Modifies {
		if !P.modExprKeys(m, env, e.keys) {
			e.all = true
		}
	}
}

// modExprKeys: x.f | elems(e) | fields(e) | *p | e[i]
func (P *Program) modExprKeys(m ast.Expr, env map[string]types.Type, out map[string]string) bool {
	switch ex := m.(type) {
	case *ast.Ident:
		if g := P.C.Ghosts[ex.Name]; g != nil {
			t, err := P.resolveType(g.Type, P.pkgOf(g.PkgPath))
			if err != nil {
				return false
			}
			keysOfPointee(t, out)
			return true
		}
		return false
	case *ast.SelectorExpr:
		if ce, ok := ex.X.(*ast.CallExpr); ok {
			if id, ok := ce.Fun.(*ast.Ident); ok && id.Name == "allof" && len(ce.Args) == 1 {
				pkg := P.pkgOf(env["$pkg"].(*pkgMarker).path)
				t, err := P.resolveType(ce.Args[0], pkg)
				if err != nil {
					return false
				}
				stt, ok := structOf(t)
				if !ok {
					return false
				}
				for i := 0; i < stt.NumFields(); i++ {
					if stt.Field(i).Name() == ex.Sel.Name {
						keysOfField(t, i, out)
						return true
					}
				}
				return false
			}
		}
		t := P.staticType(ex.X, env)
		if t == nil {
			return false
		}
		st := deref(t)
		stt, ok := structOf(st)
		if !ok {
			return false
		}
		for i := 0; i < stt.NumFields(); i++ {
			if stt.Field(i).Name() == ex.Sel.Name {
				keysOfField(st, i, out)
				return true
			}
		}
		return false
	case *ast.CallExpr:
		id, ok := ex.Fun.(*ast.Ident)
		if !ok || len(ex.Args) != 1 {
			return false
		}
		if id.Name == "allof" {
			pkg := P.pkgOf(env["$pkg"].(*pkgMarker).path)
			t, err := P.resolveType(ex.Args[0], pkg)
			if err != nil {
				return false
			}
			keysOfPointee(t, out)
			return true
		}
		t := P.staticType(ex.Args[0], env)
		if t == nil {
			return false
		}
		switch id.Name {
		case "elems":
			if st, ok := under(t).(*types.Slice); ok {
				keysOfElem(st.Elem(), out)
				return true
			}
		case "fields":
			keysOfPointee(deref(t), out)
			return true
		case "entries":
			if mt, ok := under(t).(*types.Map); ok {
				mapKeys(mt, out)
				return true
			}
		}
		return false
	case *ast.StarExpr:
		t := P.staticType(ex.X, env)
		if t == nil {
			return false
		}
		keysOfPointee(deref(t), out)
		return true
	case *ast.IndexExpr:
		t := P.staticType(ex.X, env)
		if st, ok := under(t).(*types.Slice); ok {
			keysOfElem(st.Elem(), out)
			return true
		}
	}
	return false
}

func (P *Program) staticType(e ast.Expr, env map[string]types.Type) types.Type {
	switch ex := e.(type) {
	case *ast.Ident:
		return env[ex.Name]
	case *ast.ParenExpr:
		return P.staticType(ex.X, env)
	case *ast.StarExpr:
		t := P.staticType(ex.X, env)
		if t == nil {
			return nil
		}
		return deref(t)
	case *ast.SelectorExpr:
		t := P.staticType(ex.X, env)
		if t == nil {
			return nil
		}
		stt, ok := structOf(deref(t))
		if !ok {
			return nil
		}
		for i := 0; i < stt.NumFields(); i++ {
			if stt.Field(i).Name() == ex.Sel.Name {
				return stt.Field(i).Type()
			}
		}
	case *ast.IndexExpr:
		t := P.staticType(ex.X, env)
		if t == nil {
			return nil
		}
		switch u := under(t).(type) {
		case *types.Slice:
			return u.Elem()
		case *types.Map:
			return u.Elem()
		}
	case *ast.CallExpr:
		if id, ok := ex.Fun.(*ast.Ident); ok && id.Name == "old" && len(ex.Args) == 1 {
			return P.staticType(ex.Args[0], env)
		}
	}
	return nil
}

// loopEffect: what the blocks of one loop may modify.
func (P *Program) loopEffect(fn *ssa.Function, li *loopInfo, head *ssa.BasicBlock) *effect {
	P.effMu.Lock()
	defer P.effMu.Unlock()
	var blocks []*ssa.BasicBlock
	for b := range li.body[head] {
		blocks = append(blocks, b)
	}
	sort.Slice(blocks, func(i, j int) bool { return blocks[i].Index < blocks[j].Index })
	e := newEffect()
	P.blocksEffect(fn, blocks, e, 0)
	return e
}

func ifaceMethodName(cc *ssa.CallCommon) string {
	recv := cc.Method.Type().(*types.Signature).Recv()
	if recv != nil {
		return normName(typeName(recv.Type())) + "." + cc.Method.Name()
	}
	return normName(typeName(cc.Value.Type())) + "." + cc.Method.Name()
}

// dynName gives the source-level name of a function value (variable, parameter or field).
func dynName(v ssa.Value) string {
	switch a := v.(type) {
	case *ssa.Parameter:
		return a.Name()
	case *ssa.FreeVar:
		return a.Name()
	case *ssa.UnOp:
		switch b := a.X.(type) {
		case *ssa.Alloc:
			return b.Comment
		case *ssa.FieldAddr:
			if stt, ok := under(deref(b.X.Type())).(*types.Struct); ok {
				return stt.Field(b.Field).Name()
			}
		case *ssa.FreeVar:
			return b.Name()
		case *ssa.Global:
			return b.Name()
		}
	case *ssa.Field:
		if stt, ok := under(a.X.Type()).(*types.Struct); ok {
			return stt.Field(a.Field).Name()
		}
	}
	return "?"
}

// pkgMarker smuggles the contract's package path through the static type environment.
type pkgMarker struct {
	types.Type
	path string
}
