package main

// govc — contract-based deductive verification of the real Go code of ARM-DOE/sts.
// usage: govc check <PROPERTY> [--repo DIR] [--verif DIR] [--func NAME] [--tier quick|thorough]
//        govc replay <FILE>

import (
	"encoding/json"
	"flag"
	"fmt"
	"os"
	"path/filepath"
	"runtime"
	"sort"
	"strconv"
	"strings"
	"sync"
	"time"

	"golang.org/x/tools/go/ssa"
)

type PropConfig struct {
	Property  string   `json:"property"`
	Functions []string `json:"functions"`
	// Claim lists glob-free prefixes of obligation names that count for the property; empty = all
	Residual    string            `json:"residual"`
	DesignRef   string            `json:"design_ref"`
	Assumptions []string          `json:"assumptions"`
	Bounded     []json.RawMessage `json:"bounded,omitempty"`
	Expect      []string          `json:"expect_obligations,omitempty"` // obligation names that must exist (vacuity guard)
	// Labels restricts, per function, the labelled clauses that belong to this property (a function
	// may serve several properties); absent = all. Preconditions of callees, invariants, frames and
	// safety obligations of a listed function always count.
	Labels    map[string][]string `json:"labels,omitempty"`
	Claimed   *bool               `json:"claimed,omitempty"`
	LevelText string              `json:"level_text,omitempty"`
	LevelNote string              `json:"level_note,omitempty"`
}

func (kf KnownFinding) covers(obligation string) bool {
	for _, o := range kf.Obligations {
		if o == obligation {
			return true
		}
	}
	return false
}

type KnownFinding struct {
	Property    string          `json:"property"`
	Obligations []string        `json:"obligations"`
	Func       string          `json:"func"`
	Region     string          `json:"region"`
	Witness    json.RawMessage `json:"witness,omitempty"`
	What       string          `json:"what"`
	Status     string          `json:"status"` // known | fixed
	Commit     string          `json:"commit,omitempty"`
}

type FuncReport struct {
	Func       string   `json:"func"`
	File       string   `json:"file"`
	Clauses    int      `json:"clauses"`
	Loops      int      `json:"loops"`
	Paths      int      `json:"paths"`
	Returns    int      `json:"returns"`
	Queries    int      `json:"solver_queries"`
	SolverMs   int64    `json:"solver_ms"`
	WallMs     int64    `json:"wall_ms"`
	Unsup      []string `json:"unsupported,omitempty"`
	Aborted    string   `json:"aborted,omitempty"`
	Vacuity    []string `json:"vacuity,omitempty"`
	Unreached  []string `json:"unreached_blocks,omitempty"` // blocks of the function no explored path entered
	Blocks     int      `json:"blocks"`
	BlocksIn   int      `json:"blocks_entered"`
	BlocksDead int      `json:"blocks_declared_dead,omitempty"`
	SolverErrs []string `json:"solver_errors,omitempty"`
	obligs     []*Oblig
	trusted    []string
	replay     *ReplayInfo
}

func main() {
	// pinned tool chain (the default go cannot load /repo's go.mod); everything runs offline
	os.Setenv("PATH", "/opt/veriftools/go1.26.8/bin:"+os.Getenv("PATH"))
	os.Setenv("GOTOOLCHAIN", "local")
	os.Setenv("GOFLAGS", "-mod=mod")
	os.Setenv("GOPROXY", "off")
	os.Setenv("GOSUMDB", "off")
	if len(os.Args) < 2 {
		fmt.Fprintln(os.Stderr, "usage: govc check <PROPERTY> [flags] | govc replay <FILE>")
		os.Exit(3)
	}
	switch os.Args[1] {
	case "check":
		os.Exit(cmdCheck(os.Args[2:]))
	case "replay":
		os.Exit(cmdReplay(os.Args[2:]))
	case "ssa":
		os.Exit(cmdSSA(os.Args[2:]))
	default:
		fmt.Fprintln(os.Stderr, "unknown command", os.Args[1])
		os.Exit(3)
	}
}

func envInt(name string, def int) int {
	if v := os.Getenv(name); v != "" {
		if n, err := strconv.Atoi(v); err == nil {
			return n
		}
	}
	return def
}

// verifRoot is the directory this binary belongs to (<root>/bin/govc), so that a copy of /verif
// elsewhere reads its own props and writes its own evidence; /verif otherwise.
func verifRoot() string {
	if exe, err := os.Executable(); err == nil {
		root := filepath.Dir(filepath.Dir(exe))
		if _, err := os.Stat(filepath.Join(root, "props")); err == nil {
			return root
		}
	}
	return "/verif"
}

func cmdCheck(argv []string) int {
	fs := flag.NewFlagSet("check", flag.ExitOnError)
	repo := fs.String("repo", "/repo", "repository root")
	verif := fs.String("verif", verifRoot(), "verification root")
	only := fs.String("func", "", "verify only this function")
	tierName := fs.String("tier", "", "quick|thorough (default $VERIF_TIER or quick)")
	noEvidence := fs.Bool("no-evidence", false, "do not write the evidence file (selftests)")
	outSub := fs.String("out", "", "sub-directory of out/ to use")
	var prop string
	if len(argv) > 0 && !strings.HasPrefix(argv[0], "-") {
		prop = argv[0]
		argv = argv[1:]
	}
	fs.Parse(argv)
	if prop == "" && fs.NArg() > 0 {
		prop = fs.Arg(0)
	}
	if prop == "" {
		fmt.Fprintln(os.Stderr, "missing property id")
		return 3
	}
	t0 := time.Now()
	tn := *tierName
	if tn == "" {
		tn = os.Getenv("VERIF_TIER")
	}
	if tn != "thorough" {
		tn = "quick"
	}
	seed := envInt("VERIF_SEED", 0)
	tier := Tier{Name: tn, SoftMs: 2500, RaceMs: 20000, Seed: seed, PathCap: 4000}
	if tn == "thorough" {
		tier = Tier{Name: tn, SoftMs: 6000, RaceMs: 60000, AllSolv: true, Seed: seed, PathCap: 20000, Overflow: true}
	}
	var cfg PropConfig
	cfgPath := filepath.Join(*verif, "props", prop+".json")
	if b, err := os.ReadFile(cfgPath); err != nil {
		fmt.Fprintf(os.Stderr, "govc: %v\n", err)
		return 3
	} else if err := json.Unmarshal(b, &cfg); err != nil {
		fmt.Fprintf(os.Stderr, "govc: %s: %v\n", cfgPath, err)
		return 3
	}
	var known []KnownFinding
	if b, err := os.ReadFile(filepath.Join(*verif, "known_findings.json")); err == nil {
		if err := json.Unmarshal(b, &known); err != nil {
			fmt.Fprintf(os.Stderr, "govc: known_findings.json: %v\n", err)
			return 3
		}
	}
	sub := prop
	if *outSub != "" {
		sub = *outSub
	}
	outDir := filepath.Join(*verif, "out", sub)
	os.RemoveAll(outDir)
	os.MkdirAll(outDir, 0o755)

	P, err := loadProgram(*repo, filepath.Join(*verif, "specs"))
	if err != nil {
		fmt.Printf("UNDECIDED property=%s reason=cannot load %s: %v\n", prop, *repo, err)
		return 2
	}
	loadMs := time.Since(t0).Milliseconds()
	var undecided []string
	for _, e := range P.C.Errors {
		undecided = append(undecided, "contract: "+e)
	}

	funcs := cfg.Functions
	if *only != "" {
		funcs = []string{*only}
	}
	reports := make([]*FuncReport, len(funcs))
	var wg sync.WaitGroup
	sem := make(chan struct{}, max(2, runtime.NumCPU()/2))
	var mu sync.Mutex
	for i, name := range funcs {
		fn := P.byName[name]
		fc := P.C.Funcs[name]
		if fn == nil || fc == nil {
			mu.Lock()
			if fn == nil {
				undecided = append(undecided, "function "+name+" not found in "+*repo)
			} else {
				undecided = append(undecided, "no contract for "+name)
			}
			mu.Unlock()
			continue
		}
		wg.Add(1)
		go func(i int, name string) {
			defer wg.Done()
			sem <- struct{}{}
			defer func() { <-sem }()
			rep := verifyFunc(P, name, tier, outDir, known)
			reports[i] = rep
		}(i, name)
	}
	wg.Wait()

	// aggregate
	res := aggregate(prop, cfg, reports, known, undecided, outDir, *verif)
	res.LoadMs = loadMs
	res.WallS = time.Since(t0).Seconds()
	res.Tier = tn
	res.Seed = seed
	res.Cmd = "bin/govc check " + prop + " --repo " + *repo
	if !*noEvidence {
		if err := writeEvidence(*verif, prop, cfg, res, P); err != nil {
			fmt.Fprintf(os.Stderr, "govc: evidence: %v\n", err)
			return 3
		}
	}
	for _, l := range res.Lines {
		fmt.Println(l)
	}
	fmt.Printf("govc: property=%s tier=%s functions=%d obligations=%d discharged=%d known-failing=%d violations=%d undecided=%d wall=%.1fs\n",
		prop, tn, len(funcs), res.Obligations, res.Discharged, res.KnownFailing, res.Violations, len(res.Undecided), res.WallS)
	return res.Exit
}

func verifyFunc(P *Program, name string, tier Tier, outDir string, known []KnownFinding) *FuncReport {
	t0 := time.Now()
	fn := P.byName[name]
	fc := P.C.Funcs[name]
	rep := &FuncReport{Func: name, File: P.pos(fn.Pos())}
	logPath := ""
	if os.Getenv("GOVC_DEBUG") != "" {
		logPath = filepath.Join(outDir, "session_"+sanitize(name)+".smt2")
	}
	sess, err := newSession(tier.SoftMs, logPath)
	if err != nil {
		rep.Aborted = "cannot start solver: " + err.Error()
		return rep
	}
	defer sess.Close()
	x := &Exec{P: P, fn: fn, fname: name, fc: fc, sess: sess, reg: newRegistry(), declared: map[string]int{}, touched: map[string]string{},
		obligs: map[string]*Oblig{}, tier: tier, outDir: outDir, trusted: map[string]bool{}, loops: map[*ssa.Function]*loopInfo{}, specDefs: map[string][]string{}, covered: map[string]bool{}, constrained: map[string]bool{}, boxed: map[string]Val{}, matched: map[int]bool{}, unboxed: map[string]Val{}, varargs: map[string]map[int]Val{}}
	if fn.Pkg != nil {
		x.pkg = fn.Pkg.Pkg
	} else if fn.Parent() != nil {
		p := fn
		for p.Parent() != nil {
			p = p.Parent()
		}
		if p.Pkg != nil {
			x.pkg = p.Pkg.Pkg
		}
	}
	for _, kf := range known {
		if kf.Func == name {
			x.known = append(x.known, kf)
		}
	}
	func() {
		defer func() {
			if r := recover(); r != nil {
				buf := make([]byte, 4096)
				n := runtime.Stack(buf, false)
				x.abort(fmt.Sprintf("engine panic: %v\n%s", r, buf[:n]))
				x.wg.Wait()
			}
		}()
		x.verify()
	}()
	rep.Clauses = len(fc.Requires) + len(fc.Ensures) + len(fc.OnReturn) + len(fc.Calls)
	for _, l := range fc.Loops {
		rep.Clauses += len(l.Invariants) + len(l.Backedge)
	}
	rep.Loops = len(x.loopsOf(fn).heads)
	rep.Paths = x.paths
	rep.Returns = x.returns
	rep.Queries = sess.queries
	rep.SolverMs = sess.ms
	rep.Unsup = x.unsup
	rep.Aborted = x.aborted
	rep.Vacuity = x.vacuity
	rep.SolverErrs = sess.errs
	for _, n := range x.order {
		rep.obligs = append(rep.obligs, x.obligs[n])
	}
	for t := range x.trusted {
		rep.trusted = append(rep.trusted, t)
	}
	sort.Strings(rep.trusted)
	if x.returns == 0 && (len(fc.Ensures) > 0 || len(fc.OnReturn) > 0) && x.aborted == "" {
		rep.Vacuity = append(rep.Vacuity, "no feasible path reaches a return of "+name)
	}
	if x.aborted == "" {
		for _, b := range fn.Blocks {
			if b.Comment == "recover" {
				continue
			}
			rep.Blocks++
			if b.Index == 0 || x.visited[b] {
				rep.BlocksIn++
				continue
			}
			pos := ""
			for _, in := range b.Instrs {
				if in.Pos().IsValid() {
					pos = P.pos(in.Pos())
					break
				}
			}
			tolerated := false
			for _, in := range b.Instrs {
				if c, ok := in.(ssa.CallInstruction); ok {
					name := x.calleeName(nil, nil, c.Common())
					for _, d := range fc.Dead {
						if patternMatches(CallPattern{Kind: "call", Callee: d}, "call", name, shortPkg(fc.PkgPath)) {
							tolerated = true
						}
					}
				}
			}
			if tolerated {
				rep.BlocksDead++
				continue
			}
			rep.Unreached = append(rep.Unreached, fmt.Sprintf("block %d (%s) %s", b.Index, b.Comment, pos))
		}
	}
	if x.params != nil {
		rep.replay = x.replayInfo()
	}
	rep.WallMs = time.Since(t0).Milliseconds()
	return rep
}

// cmdSSA prints the naive-form SSA of functions (debugging aid): govc ssa [--repo DIR] NAME...
func cmdSSA(argv []string) int {
	repo := "/repo"
	if len(argv) > 1 && argv[0] == "--repo" {
		repo = argv[1]
		argv = argv[2:]
	}
	P, err := loadProgram(repo, filepath.Join(verifRoot(), "specs"))
	if err != nil {
		fmt.Fprintln(os.Stderr, err)
		return 2
	}
	for _, n := range argv {
		fn := P.byName[n]
		if fn == nil {
			var cands []string
			for k := range P.byName {
				if strings.Contains(k, n) {
					cands = append(cands, k)
				}
			}
			sort.Strings(cands)
			fmt.Printf("no function %s; candidates: %s\n", n, strings.Join(cands, " "))
			continue
		}
		fn.WriteTo(os.Stdout)
		li := computeLoops(fn)
		for i, h := range li.heads {
			fmt.Printf("# loop %d: head block %d\n", i, h.Index)
		}
	}
	return 0
}
