package main

// Contract files: comment-only Go files (//go:build verif) in /repo/<pkg>/zz_contracts_verif.go
// and trusted specifications in /verif/specs/*.spec. Only lines starting with "//@" are read.

import (
	"fmt"
	"go/ast"
	"go/parser"
	"os"
	"path/filepath"
	"regexp"
	"sort"
	"strings"
)

type Clause struct {
	Label string
	Src   string
	Expr  ast.Expr
	Pos   string
}

type CallPattern struct {
	Kind   string // "call", "go", "defer", "store"
	Callee string
	Args   []ast.Expr // nil entry = wildcard; nil slice = any arguments
	Src    string
}

type CallAssert struct {
	Assume  bool   // after call P assume l: e -- a trusted fact about the callee's effect at this site
	When    string // before | after
	Pattern CallPattern
	Clause  Clause
	Forbid  bool
}

type LoopSpec struct {
	Invariants []Clause
	Decreases  *Clause
	Backedge   []Clause // proved at every back edge (events are those since the loop head); never assumed
}

type FuncContract struct {
	File        string
	PkgPath     string // package of the contract file ("" for specs)
	Name        string // as written
	IsInterface bool
	Requires    []Clause
	Ensures     []Clause
	OnReturn    []Clause
	OnCbReturn  []Clause // at the return of a closure running as a callback in this function's context
	Modifies    []ast.Expr
	HasModifies bool
	ModAll      bool
	Loops       map[string]*LoopSpec // "N" for the N-th loop of the function, "$k.N" for the N-th loop of its closure $k
	Calls       []CallAssert
	Inline      bool
	Pure        bool
	Stable      bool
	Trusted     bool
	Safety      bool
	NoVerify    bool // contract is assumed for the body too (trusted)
	FrameAssumed bool // the modifies clause is assumed, the assertions are verified
	Dead        []string // callee patterns: blocks calling these may be unreachable
	StoreNames  []string // variables/fields whose stores are tracked as events ("before store X", stored(X))
	Callback    string // name of a function-typed parameter that the callee invokes any number of times
	Ghost       []GhostUpdate
	Line        int
}

type GhostUpdate struct {
	When    string
	Pattern CallPattern
	Src     string
}

type SpecParam struct {
	Name string
	Type ast.Expr
}

type SpecFunc struct {
	File    string
	PkgPath string
	Name    string
	Params  []SpecParam
	Ret     ast.Expr
	Body    ast.Expr
	Src     string
	Rec     bool
}

type GhostVar struct {
	Name    string
	Type    ast.Expr
	PkgPath string
}

type Contracts struct {
	Funcs  map[string]*FuncContract // key: normalized qualified name
	Ghosts map[string]*GhostVar     // ghost globals (specification-only state such as the clock)
	Specs  map[string]*SpecFunc
	Files  []string
	Errors []string
}

var keywordRe = regexp.MustCompile(`^(dead|track|callback|ghost|spec|func|interface|requires|ensures|modifies|loop|before|after|on|forbid|inline|pure|stable|trusted|safety|noverify|frameassumed)\b`)
var loopKeyRe = regexp.MustCompile(`^(\$[0-9$]+\.)?[0-9]+$`)
var labelRe = regexp.MustCompile(`^([A-Za-z][A-Za-z0-9_-]*):\s+(.*)$`)

// ppImplies rewrites "a ==> b" to implies(a, b) and "a <==> b" to iff(a, b).
func ppImplies(s string) string { return ppGroup(s) }

func splitTop(s string, sep string) []string {
	var out []string
	depth := 0
	start := 0
	inStr := byte(0)
	for i := 0; i < len(s); i++ {
		c := s[i]
		if inStr != 0 {
			if c == '\\' {
				i++
			} else if c == inStr {
				inStr = 0
			}
			continue
		}
		switch c {
		case '"', '`', '\'':
			inStr = c
		case '(', '[', '{':
			depth++
		case ')', ']', '}':
			depth--
		default:
			if depth == 0 && strings.HasPrefix(s[i:], sep) {
				// "==>" must not be part of "<==>" when splitting on "==>"
				if sep == "==>" && i > 0 && s[i-1] == '<' {
					continue
				}
				out = append(out, s[start:i])
				start = i + len(sep)
				i += len(sep) - 1
			}
		}
	}
	out = append(out, s[start:])
	return out
}

func ppGroup(s string) string {
	segs := splitTop(s, ",")
	for i := range segs {
		segs[i] = ppSeg(segs[i])
	}
	return strings.Join(segs, ",")
}

func ppSeg(s string) string {
	if parts := splitTop(s, "<==>"); len(parts) > 1 {
		return "iff(" + ppSeg(parts[0]) + ", " + ppSeg(strings.Join(parts[1:], "<==>")) + ")"
	}
	if parts := splitTop(s, "==>"); len(parts) > 1 {
		return "implies(" + ppSeg(parts[0]) + ", " + ppSeg(strings.Join(parts[1:], "==>")) + ")"
	}
	// descend into bracket groups
	var b strings.Builder
	inStr := byte(0)
	for i := 0; i < len(s); i++ {
		c := s[i]
		if inStr != 0 {
			b.WriteByte(c)
			if c == '\\' && i+1 < len(s) {
				i++
				b.WriteByte(s[i])
			} else if c == inStr {
				inStr = 0
			}
			continue
		}
		switch c {
		case '"', '`', '\'':
			inStr = c
			b.WriteByte(c)
		case '(', '[':
			j := matchClose(s, i)
			if j < 0 {
				b.WriteString(s[i:])
				return b.String()
			}
			b.WriteByte(c)
			b.WriteString(ppGroup(s[i+1 : j]))
			b.WriteByte(s[j])
			i = j
		default:
			b.WriteByte(c)
		}
	}
	return b.String()
}

func matchClose(s string, i int) int {
	depth := 0
	inStr := byte(0)
	for ; i < len(s); i++ {
		c := s[i]
		if inStr != 0 {
			if c == '\\' {
				i++
			} else if c == inStr {
				inStr = 0
			}
			continue
		}
		switch c {
		case '"', '`', '\'':
			inStr = c
		case '(', '[', '{':
			depth++
		case ')', ']', '}':
			depth--
			if depth == 0 {
				return i
			}
		}
	}
	return -1
}

func parseExprSrc(src string) (ast.Expr, error) {
	e, err := parser.ParseExpr(ppImplies(src))
	if err != nil {
		return nil, fmt.Errorf("cannot parse %q: %v", src, err)
	}
	return e, nil
}

func (c *Contracts) errf(format string, a ...any) { c.Errors = append(c.Errors, fmt.Sprintf(format, a...)) }

func (c *Contracts) clause(src, pos string) Clause {
	cl := Clause{Src: src, Pos: pos}
	if m := labelRe.FindStringSubmatch(src); m != nil && !strings.HasPrefix(m[2], "=") {
		cl.Label = m[1]
		src = m[2]
		cl.Src = src
	}
	e, err := parseExprSrc(src)
	if err != nil {
		c.errf("%s: %v", pos, err)
		return cl
	}
	cl.Expr = e
	return cl
}

// parsePattern parses "os.Rename(_, x+".wait")" or "(*Stage).toCache" etc.
func (c *Contracts) parsePattern(kind, src, pos string) CallPattern {
	src = strings.TrimSpace(src)
	p := CallPattern{Kind: kind, Src: src}
	// find argument list: last top-level "(...)" at the very end, preceded by an identifier char
	if strings.HasSuffix(src, ")") {
		// locate matching open for the final ')'
		depth := 0
		open := -1
		for i := len(src) - 1; i >= 0; i-- {
			if src[i] == ')' {
				depth++
			} else if src[i] == '(' {
				depth--
				if depth == 0 {
					open = i
					break
				}
			}
		}
		if open > 0 && (isIdentByte(src[open-1])) {
			p.Callee = strings.TrimSpace(src[:open])
			argsrc := src[open+1 : len(src)-1]
			p.Args = []ast.Expr{}
			if strings.TrimSpace(argsrc) != "" {
				for _, a := range splitTop(argsrc, ",") {
					a = strings.TrimSpace(a)
					if a == "_" {
						p.Args = append(p.Args, nil)
						continue
					}
					e, err := parseExprSrc(a)
					if err != nil {
						c.errf("%s: %v", pos, err)
						continue
					}
					p.Args = append(p.Args, e)
				}
			}
			return p
		}
	}
	p.Callee = src
	return p
}

func isIdentByte(b byte) bool {
	return b == '_' || b == '$' || b >= '0' && b <= '9' || b >= 'a' && b <= 'z' || b >= 'A' && b <= 'Z'
}

// loadContractFile reads the //@ lines of one file.
func (c *Contracts) loadContractFile(path, pkgPath string) {
	data, err := os.ReadFile(path)
	if err != nil {
		c.errf("%s: %v", path, err)
		return
	}
	c.Files = append(c.Files, path)
	type stmt struct {
		text string
		line int
	}
	var stmts []stmt
	for i, raw := range strings.Split(string(data), "\n") {
		t := strings.TrimSpace(raw)
		if !strings.HasPrefix(t, "//@") {
			continue
		}
		t = strings.TrimSpace(t[3:])
		if t == "" {
			continue
		}
		if i := strings.Index(t, " //"); i >= 0 && !strings.Contains(t[i:], `"`) {
			t = strings.TrimSpace(t[:i])
		}
		if keywordRe.MatchString(t) || len(stmts) == 0 {
			stmts = append(stmts, stmt{t, i + 1})
		} else {
			stmts[len(stmts)-1].text += " " + t
		}
	}
	var cur *FuncContract
	for _, st := range stmts {
		pos := fmt.Sprintf("%s:%d", path, st.line)
		kw := keywordRe.FindString(st.text)
		rest := strings.TrimSpace(st.text[len(kw):])
		switch kw {
		case "spec":
			c.parseSpec(rest, path, pkgPath, pos)
			cur = nil
		case "ghost":
			// ghost var NAME TYPE
			f := strings.Fields(rest)
			if len(f) != 3 || f[0] != "var" {
				c.errf("%s: expected 'ghost var NAME TYPE'", pos)
				continue
			}
			te, err := parser.ParseExpr(f[2])
			if err != nil {
				c.errf("%s: ghost type: %v", pos, err)
				continue
			}
			c.Ghosts[f[1]] = &GhostVar{Name: f[1], Type: te, PkgPath: pkgPath}
			cur = nil
		case "func", "interface":
			fields := strings.Fields(rest)
			if len(fields) == 0 {
				c.errf("%s: missing function name", pos)
				continue
			}
			// name may contain spaces only in "(*T).m" form: no. take first field.
			name := fields[0]
			cur = &FuncContract{File: path, PkgPath: pkgPath, Name: name, IsInterface: kw == "interface", Loops: map[string]*LoopSpec{}, Line: st.line}
			key := qualify(name, pkgPath)
			if kw == "interface" && pkgPath != "" && strings.Count(name, ".") == 1 && !strings.Contains(name, "/") {
				key = shortPkg(pkgPath) + "." + name // Type.Method of this package, also for unexported types
			}
			if _, dup := c.Funcs[key]; dup {
				c.errf("%s: duplicate contract for %s", pos, key)
			}
			c.Funcs[key] = cur
			for _, f := range fields[1:] {
				c.flag(cur, f, pos)
			}
		default:
			if cur == nil {
				c.errf("%s: clause outside func: %s", pos, st.text)
				continue
			}
			switch kw {
			case "requires":
				cur.Requires = append(cur.Requires, c.clause(rest, pos))
			case "ensures":
				cur.Ensures = append(cur.Ensures, c.clause(rest, pos))
			case "modifies":
				cur.HasModifies = true
				rest = strings.TrimSpace(rest)
				if rest == "nothing" {
					break
				}
				if rest == "everything" {
					cur.ModAll = true
					break
				}
				for _, m := range splitTop(rest, ",") {
					e, err := parseExprSrc(strings.TrimSpace(m))
					if err != nil {
						c.errf("%s: %v", pos, err)
						continue
					}
					cur.Modifies = append(cur.Modifies, e)
				}
			case "loop":
				f := strings.Fields(rest)
				if len(f) < 3 {
					c.errf("%s: bad loop clause", pos)
					continue
				}
				n := f[0]
				if !loopKeyRe.MatchString(n) {
					c.errf("%s: bad loop ordinal %q", pos, f[0])
					continue
				}
				ls := cur.Loops[n]
				if ls == nil {
					ls = &LoopSpec{}
					cur.Loops[n] = ls
				}
				body := strings.TrimSpace(strings.TrimPrefix(strings.TrimSpace(strings.TrimPrefix(rest, f[0])), f[1]))
				switch f[1] {
				case "invariant":
					ls.Invariants = append(ls.Invariants, c.clause(body, pos))
				case "decreases":
					cl := c.clause(body, pos)
					ls.Decreases = &cl
				case "backedge":
					// loop N backedge assert label: expr
					body = strings.TrimSpace(strings.TrimPrefix(body, "assert"))
					ls.Backedge = append(ls.Backedge, c.clause(body, pos))
				default:
					c.errf("%s: bad loop clause kind %q", pos, f[1])
				}
			case "before", "after":
				// before|after (call|go|defer) PATTERN assert label: expr
				f := strings.Fields(rest)
				if len(f) < 3 || (f[0] != "call" && f[0] != "go" && f[0] != "defer" && f[0] != "mapupdate" && f[0] != "send" && f[0] != "store") {
					c.errf("%s: expected 'call|go|defer|mapupdate|send|store' after %s", pos, kw)
					continue
				}
				body := strings.TrimSpace(rest[len(f[0]):])
				i := strings.Index(body, " assert ")
				assume := false
				if j := strings.Index(body, " assume "); i < 0 && j >= 0 && kw == "after" {
					i, assume = j, true
				}
				if i < 0 {
					c.errf("%s: missing 'assert' in %s clause", pos, kw)
					continue
				}
				pat := c.parsePattern(f[0], body[:i], pos)
				if f[0] == "store" {
					cur.StoreNames = append(cur.StoreNames, pat.Callee)
				}
				cl := c.clause(strings.TrimSpace(body[i+len(" assert "):]), pos)
				cur.Calls = append(cur.Calls, CallAssert{When: kw, Pattern: pat, Clause: cl, Assume: assume})
			case "forbid":
				f := strings.Fields(rest)
				if len(f) < 2 || (f[0] != "call" && f[0] != "go" && f[0] != "defer" && f[0] != "mapupdate" && f[0] != "send") {
					c.errf("%s: expected 'forbid call PATTERN [label: ...]'", pos)
					continue
				}
				body := strings.TrimSpace(rest[len(f[0]):])
				label := "forbidden"
				if i := strings.Index(body, " label "); i >= 0 {
					label = strings.TrimSpace(body[i+len(" label "):])
					body = body[:i]
				}
				pat := c.parsePattern(f[0], body, pos)
				cur.Calls = append(cur.Calls, CallAssert{When: "before", Pattern: pat, Forbid: true,
					Clause: Clause{Label: label, Src: "false", Expr: ast.NewIdent("false"), Pos: pos}})
			case "callback":
				cur.Callback = strings.TrimSpace(rest)
			case "dead":
				// dead PATTERN: a block that contains a call matching PATTERN may be unreachable (defensive
				// code); every other block of the function has to be entered by some explored path
				cur.Dead = append(cur.Dead, strings.TrimSpace(rest))
			case "track":
				// track store NAME...: record stores to these variables/fields as events
				f := strings.Fields(rest)
				if len(f) < 2 || f[0] != "store" {
					c.errf("%s: expected 'track store NAME...'", pos)
					continue
				}
				cur.StoreNames = append(cur.StoreNames, f[1:]...)
			case "on":
				// on return assert label: expr
				i := strings.Index(rest, "assert ")
				if strings.HasPrefix(rest, "callback return") && i >= 0 {
					// on callback return assert label: expr -- at the end of an invocation of a closure that
					// runs as a callback in the context of this function (names resolve lexically: the
					// closure's own variables first, then this function's)
					cur.OnCbReturn = append(cur.OnCbReturn, c.clause(strings.TrimSpace(rest[i+len("assert "):]), pos))
					continue
				}
				if !strings.HasPrefix(rest, "return") || i < 0 {
					c.errf("%s: expected 'on return assert ...'", pos)
					continue
				}
				cur.OnReturn = append(cur.OnReturn, c.clause(strings.TrimSpace(rest[i+len("assert "):]), pos))
			default:
				c.flag(cur, kw, pos)
				for _, f := range strings.Fields(rest) {
					c.flag(cur, f, pos)
				}
			}
		}
	}
}

func (c *Contracts) flag(fc *FuncContract, f, pos string) {
	switch f {
	case "inline":
		fc.Inline = true
	case "pure":
		fc.Pure = true
	case "stable":
		fc.Stable = true
	case "trusted":
		fc.Trusted = true
	case "safety":
		fc.Safety = true
	case "noverify":
		fc.NoVerify = true
	case "frameassumed":
		// the modifies clause is used by callers but not checked against the body (listed as an
		// assumption); the assertions of the contract are still verified
		fc.FrameAssumed = true
	default:
		c.errf("%s: unknown flag %q", pos, f)
	}
}

var specHeadRe = regexp.MustCompile(`^([A-Za-z_][A-Za-z0-9_]*)\((.*?)\)\s*([^=]*?)\s*=\s*(.*)$`)

func (c *Contracts) parseSpec(rest, path, pkgPath, pos string) {
	// name(params) ret = body ; params may contain parens only in func types (not supported)
	open := strings.Index(rest, "(")
	if open < 0 {
		c.errf("%s: bad spec", pos)
		return
	}
	cl := matchClose(rest, open)
	if cl < 0 {
		c.errf("%s: bad spec", pos)
		return
	}
	name := strings.TrimSpace(rest[:open])
	params := rest[open+1 : cl]
	tail := rest[cl+1:]
	eq := strings.Index(tail, "=")
	uninterpreted := false
	if eq < 0 {
		// no body: an uninterpreted function of its arguments
		uninterpreted = true
		eq = len(tail)
		tail += "= true"
	}
	retSrc := strings.TrimSpace(tail[:eq])
	bodySrc := strings.TrimSpace(tail[eq+1:])
	sf := &SpecFunc{File: path, PkgPath: pkgPath, Name: name, Src: bodySrc}
	for _, p := range splitTop(params, ",") {
		p = strings.TrimSpace(p)
		if p == "" {
			continue
		}
		i := strings.IndexAny(p, " \t")
		if i < 0 {
			c.errf("%s: spec parameter %q needs a type", pos, p)
			return
		}
		te, err := parser.ParseExpr(strings.TrimSpace(p[i:]))
		if err != nil {
			c.errf("%s: spec parameter type %q: %v", pos, p, err)
			return
		}
		sf.Params = append(sf.Params, SpecParam{Name: p[:i], Type: te})
	}
	if retSrc == "" {
		retSrc = "bool"
	}
	re, err := parser.ParseExpr(retSrc)
	if err != nil {
		c.errf("%s: spec result type %q: %v", pos, retSrc, err)
		return
	}
	sf.Ret = re
	be, err := parseExprSrc(bodySrc)
	if err != nil {
		c.errf("%s: %v", pos, err)
		return
	}
	sf.Body = be
	if uninterpreted {
		sf.Body = nil
		sf.Src = ""
	}
	ast.Inspect(be, func(n ast.Node) bool {
		if ce, ok := n.(*ast.CallExpr); ok {
			if id, ok := ce.Fun.(*ast.Ident); ok && id.Name == name {
				sf.Rec = true
			}
		}
		return true
	})
	if _, dup := c.Specs[name]; dup {
		c.errf("%s: duplicate spec function %s", pos, name)
	}
	c.Specs[name] = sf
}

const modPrefix = "github.com/arm-doe/sts"

// normName shortens fully qualified names: github.com/arm-doe/sts/stage.X -> stage.X,
// github.com/arm-doe/sts.X -> sts.X
func normName(s string) string {
	s = strings.ReplaceAll(s, modPrefix+"/", "")
	s = strings.ReplaceAll(s, "github.com/arm-doe/", "")
	return s
}

func shortPkg(pkgPath string) string {
	if pkgPath == modPrefix {
		return "sts"
	}
	return strings.TrimPrefix(pkgPath, modPrefix+"/")
}

// qualify turns a name written in a contract file of package pkgPath into the
// normalized qualified name: addCompanionPart -> stage.addCompanionPart,
// (*Stage).process -> (*stage.Stage).process ; names that already carry a
// package qualifier are kept.
func qualify(name, pkgPath string) string {
	if pkgPath == "" {
		return name
	}
	sp := shortPkg(pkgPath)
	if strings.HasPrefix(name, "(") {
		i := strings.Index(name, ")")
		if i < 0 {
			return name
		}
		recv := name[1:i]
		star := ""
		if strings.HasPrefix(recv, "*") {
			star = "*"
			recv = recv[1:]
		}
		if !strings.Contains(recv, ".") {
			recv = sp + "." + recv
		}
		return "(" + star + recv + ")" + name[i+1:]
	}
	// plain function or Type.method (interface) written unqualified
	first := name
	if i := strings.IndexAny(name, ".$"); i >= 0 {
		first = name[:i]
	}
	if strings.Contains(name, ".") {
		// pkg.Func, or Type.Method of this package? treat a leading known-lowercase pkg as qualifier
		// heuristic: if the first segment starts with an upper-case letter it is a type of this package
		if first != "" && first[0] >= 'A' && first[0] <= 'Z' {
			return sp + "." + name
		}
		return name
	}
	return sp + "." + name
}

func loadContracts(repo, specDir string, pkgDirs map[string]string) *Contracts {
	c := &Contracts{Funcs: map[string]*FuncContract{}, Specs: map[string]*SpecFunc{}, Ghosts: map[string]*GhostVar{}}
	var paths []string
	for p := range pkgDirs {
		paths = append(paths, p)
	}
	sort.Strings(paths)
	for _, p := range paths {
		f := filepath.Join(pkgDirs[p], "zz_contracts_verif.go")
		if _, err := os.Stat(f); err == nil {
			c.loadContractFile(f, p)
		}
	}
	specs, _ := filepath.Glob(filepath.Join(specDir, "*.spec"))
	sort.Strings(specs)
	for _, f := range specs {
		c.loadContractFile(f, "")
	}
	return c
}
