package main

import (
	"fmt"
	"go/ast"
	"go/types"
	"os"
	"path/filepath"
	"sort"
	"strings"
	"sync"

	"golang.org/x/tools/go/packages"
	"golang.org/x/tools/go/ssa"
	"golang.org/x/tools/go/ssa/ssautil"
)

type Program struct {
	prog     *ssa.Program
	pkgs     []*packages.Package
	typePkgs map[string]*types.Package // by path (all loaded, incl. deps)
	byName   map[string]*ssa.Function
	C        *Contracts
	repo     string
	effMemo  map[*ssa.Function]*effect
	effMu    sync.Mutex
	concOnce sync.Once
	concrete []types.Type
	loadErrs []string
}

func loadProgram(repo, specDir string) (*Program, error) {
	cfg := &packages.Config{Mode: packages.LoadAllSyntax, Dir: repo, Env: append(os.Environ(), "PATH=/opt/veriftools/go1.26.8/bin:"+os.Getenv("PATH"), "GOFLAGS=-mod=mod", "GOPROXY=off", "GOSUMDB=off", "GOTOOLCHAIN=local")}
	pkgs, err := packages.Load(cfg, "./...")
	if err != nil {
		return nil, err
	}
	P := &Program{pkgs: pkgs, repo: repo, typePkgs: map[string]*types.Package{}, byName: map[string]*ssa.Function{}, effMemo: map[*ssa.Function]*effect{}}
	pkgDirs := map[string]string{}
	for _, p := range pkgs {
		for _, e := range p.Errors {
			P.loadErrs = append(P.loadErrs, e.Error())
		}
		if len(p.GoFiles) > 0 {
			pkgDirs[p.PkgPath] = filepath.Dir(p.GoFiles[0])
		}
	}
	if len(P.loadErrs) > 0 {
		return P, fmt.Errorf("package errors: %s", strings.Join(P.loadErrs, "; "))
	}
	packages.Visit(pkgs, nil, func(p *packages.Package) {
		if p.Types != nil {
			P.typePkgs[p.PkgPath] = p.Types
		}
	})
	prog, _ := ssautil.AllPackages(pkgs, ssa.NaiveForm)
	prog.Build()
	P.prog = prog
	for fn := range ssautil.AllFunctions(prog) {
		P.byName[normName(fn.String())] = fn
	}
	P.C = loadContracts(repo, specDir, pkgDirs)
	return P, nil
}

func (P *Program) isRepoPath(path string) bool {
	return path == modPrefix || strings.HasPrefix(path, modPrefix+"/")
}

func (P *Program) inRepoPkg(p *ssa.Package) bool {
	return p != nil && p.Pkg != nil && P.isRepoPath(p.Pkg.Path())
}

func (P *Program) inRepo(fn *ssa.Function) bool {
	for fn.Parent() != nil {
		fn = fn.Parent()
	}
	if fn.Pkg != nil {
		return P.inRepoPkg(fn.Pkg)
	}
	if o := fn.Object(); o != nil && o.Pkg() != nil {
		return P.isRepoPath(o.Pkg().Path())
	}
	return false
}

func (P *Program) pkgOf(path string) *types.Package {
	if path == "" {
		return nil
	}
	return P.typePkgs[path]
}

// findPackage resolves a package name as written in a contract.
func (P *Program) findPackage(name string, from *types.Package) *types.Package {
	if from != nil {
		for _, imp := range from.Imports() {
			if imp.Name() == name {
				return imp
			}
		}
	}
	var cands []string
	for path, p := range P.typePkgs {
		if p.Name() == name {
			cands = append(cands, path)
		}
	}
	if len(cands) == 0 {
		return nil
	}
	sort.Slice(cands, func(i, j int) bool {
		ri, rj := P.isRepoPath(cands[i]), P.isRepoPath(cands[j])
		if ri != rj {
			return ri
		}
		if len(cands[i]) != len(cands[j]) {
			return len(cands[i]) < len(cands[j])
		}
		return cands[i] < cands[j]
	})
	return P.typePkgs[cands[0]]
}

func (P *Program) resolveType(e ast.Expr, pkg *types.Package) (types.Type, error) {
	switch n := e.(type) {
	case *ast.Ident:
		if obj := types.Universe.Lookup(n.Name); obj != nil {
			if tn, ok := obj.(*types.TypeName); ok {
				return tn.Type(), nil
			}
		}
		if pkg != nil {
			if obj := pkg.Scope().Lookup(n.Name); obj != nil {
				if tn, ok := obj.(*types.TypeName); ok {
					return tn.Type(), nil
				}
			}
		}
		return nil, fmt.Errorf("unknown type %s", n.Name)
	case *ast.SelectorExpr:
		id, ok := n.X.(*ast.Ident)
		if !ok {
			return nil, fmt.Errorf("bad qualified type")
		}
		p := P.findPackage(id.Name, pkg)
		if p == nil {
			return nil, fmt.Errorf("unknown package %s", id.Name)
		}
		if obj := p.Scope().Lookup(n.Sel.Name); obj != nil {
			if tn, ok := obj.(*types.TypeName); ok {
				return tn.Type(), nil
			}
		}
		return nil, fmt.Errorf("unknown type %s.%s", id.Name, n.Sel.Name)
	case *ast.StarExpr:
		t, err := P.resolveType(n.X, pkg)
		if err != nil {
			return nil, err
		}
		return types.NewPointer(t), nil
	case *ast.ParenExpr:
		return P.resolveType(n.X, pkg)
	case *ast.ArrayType:
		if n.Len != nil {
			return nil, fmt.Errorf("array types are not supported in contracts")
		}
		t, err := P.resolveType(n.Elt, pkg)
		if err != nil {
			return nil, err
		}
		return types.NewSlice(t), nil
	case *ast.MapType:
		k, err := P.resolveType(n.Key, pkg)
		if err != nil {
			return nil, err
		}
		v, err := P.resolveType(n.Value, pkg)
		if err != nil {
			return nil, err
		}
		return types.NewMap(k, v), nil
	case *ast.InterfaceType:
		return types.NewInterfaceType(nil, nil), nil
	}
	return nil, fmt.Errorf("unsupported type expression %s", types.ExprString(e))
}

func (P *Program) funcName(f *types.Func) string {
	if fn := P.prog.FuncValue(f); fn != nil {
		return fn.String()
	}
	return f.FullName()
}

// concreteTypes: named non-interface types of the loaded program (T and *T), sorted.
func (P *Program) concreteTypes() []types.Type {
	P.concOnce.Do(P.initConcrete)
	return P.concrete
}

func (P *Program) initConcrete() {
	var paths []string
	for p := range P.typePkgs {
		paths = append(paths, p)
	}
	sort.Strings(paths)
	for _, path := range paths {
		sc := P.typePkgs[path].Scope()
		for _, n := range sc.Names() {
			tn, ok := sc.Lookup(n).(*types.TypeName)
			if !ok || tn.IsAlias() {
				continue
			}
			t := tn.Type()
			if _, isIface := under(t).(*types.Interface); isIface {
				continue
			}
			if named, ok := t.(*types.Named); ok && named.TypeParams().Len() > 0 {
				continue
			}
			P.concrete = append(P.concrete, t, types.NewPointer(t))
		}
	}
}
