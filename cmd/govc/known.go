package main

// Known findings: an obligation is split by a region predicate over the function's inputs.

func (x *Exec) evalRegion(st *State, kf KnownFinding) (Term, bool) {
	ex, err := parseExprSrc(kf.Region)
	if err != nil {
		x.unsupported("known finding region: " + err.Error())
		return tFalse, false
	}
	fr := st.frames[0]
	env := x.envFor(st, fr)
	env.entryParams = true
	env.cur = x.entry
	env.inOld = true
	x.pure++
	t, ok := env.evalBool(ex)
	x.pure--
	if !ok {
		x.unsupported("known finding region " + kf.Region + ": " + env.err)
		return tFalse, false
	}
	return t, true
}
