package main

// Forward symbolic execution of go/ssa (naive form) with loop cut points; emits
// verification conditions into an incremental solver session and a solver race.

import (
	"sync/atomic"
	"fmt"
	"go/constant"
	"go/token"
	"go/types"
	"os"
	"path/filepath"
	"sort"
	"strconv"
	"strings"
	"sync"
	"time"

	"golang.org/x/tools/go/ssa"
)

type ObligInstance struct {
	Path    int            `json:"path"`
	Result  string         `json:"result"` // discharged | failed | unknown
	Solver  string         `json:"solver"`
	Ms      int64          `json:"ms"`
	File    string         `json:"smt_file,omitempty"`
	Answers []SolverAnswer `json:"answers,omitempty"`
	Model   string         `json:"model,omitempty"`
	Where   string         `json:"where,omitempty"`
	Goal    string         `json:"goal,omitempty"`
	Trace   []string       `json:"path_events,omitempty"`
}

type Oblig struct {
	Name      string           `json:"name"`
	Kind      string           `json:"kind"`
	Func      string           `json:"func"`
	Clause    string           `json:"clause,omitempty"`
	Expect    string           `json:"expect,omitempty"` // "" (must hold) | "fail" (known-region)
	Instances []*ObligInstance `json:"instances"`
	nRefuted  int32
	nUnknown  int32
	nSessUnknown int32
}

// refuted: number of instances of the obligation for which a solver produced a counterexample.
func (o *Oblig) refuted() int   { return int(atomic.LoadInt32(&o.nRefuted)) }
func (o *Oblig) addRefuted()    { atomic.AddInt32(&o.nRefuted, 1) }

// obligGate bounds the number of obligation instances whose solver race runs at the same time, so
// that later instances of an obligation see the counterexamples found for earlier ones.
var obligGate = make(chan struct{}, 5)

type Tier struct {
	Name     string
	SoftMs   int
	RaceMs   int
	AllSolv  bool
	Seed     int
	PathCap  int
	Overflow bool
}

type Exec struct {
	P        *Program
	fn       *ssa.Function
	fname    string
	fc       *FuncContract
	sess     *Session
	reg      *Registry
	declared map[string]int
	touched  map[string]string
	pure     int
	unsup    []string
	obligs   map[string]*Oblig
	order    []string
	paths    int
	tier     Tier
	outDir   string
	trusted  map[string]bool
	wg       sync.WaitGroup
	mu       sync.Mutex
	entry    *HeapView
	entryW   Term
	loops    map[*ssa.Function]*loopInfo
	returns  int
	nfile    int
	aborted  string
	pkg      *types.Package
	specDefs map[string][]string // recursive spec function -> heap key list
	known    []KnownFinding
	steps    int
	params   map[string]Val
	covered  map[string]bool // clause labels reached on a feasible path
	vacuity  []string
	specErr  string
	unboxed     map[string]Val            // interface values (tag|payload) -> the value that was boxed
	varargs     map[string]map[int]Val    // varargs arrays (by reference symbol) -> values stored per index
	boxed       map[string]Val  // slices converted to interface values (sort.Sort arguments), by payload symbol
	matched     map[int]bool // call-site clauses (by index) whose pattern selected at least one site
	visited     map[*ssa.BasicBlock]bool // blocks of the function under verification that some path entered
	siteAlias   string // interface-method alias of the call site being processed
	constrained map[string]bool // fresh call results that a branch has already tested on this run
	lenView  *HeapView // heap view for len() of maps inside contract expressions (nil = current)
}

func (x *Exec) unsupported(msg string) {
	for _, u := range x.unsup {
		if u == msg {
			return
		}
	}
	x.unsup = append(x.unsup, msg)
}

func (x *Exec) trust(s string) { x.trusted[s] = true }

func (x *Exec) loopsOf(fn *ssa.Function) *loopInfo {
	li := x.loops[fn]
	if li == nil {
		li = computeLoops(fn)
		x.loops[fn] = li
	}
	return li
}

// ---------------------------------------------------------------------------
// Obligations

func (x *Exec) oblig(name, kind, clause string) *Oblig {
	o := x.obligs[name]
	if o == nil {
		o = &Oblig{Name: name, Kind: kind, Func: x.fname, Clause: clause}
		x.obligs[name] = o
		x.order = append(x.order, name)
	}
	return o
}

// prove checks hyps(path) => goal. Failures go to the race asynchronously.
func (x *Exec) prove(st *State, name, kind, clause string, goal Term, where string) {
	// known-finding regions split the obligation
	for _, kf := range x.known {
		if kf.covers(name) && kf.Status == "known" {
			region, ok := x.evalRegion(st, kf)
			if ok {
				x.prove1(st, name+"@known-region", kind, clause, tImplies(region, goal), where, "fail")
				x.prove1(st, name+"@elsewhere", kind, clause, tImplies(tNot(region), goal), where, "")
				return
			}
		}
	}
	x.prove1(st, name, kind, clause, goal, where, "")
}

func (x *Exec) prove1(st *State, name, kind, clause string, goal Term, where, expect string) {
	o := x.oblig(name, kind, clause)
	o.Expect = expect
	inst := &ObligInstance{Path: x.paths, Where: where, Goal: shortTerm(goal)}
	x.mu.Lock()
	o.Instances = append(o.Instances, inst)
	x.mu.Unlock()
	if goal.S == "true" {
		inst.Result, inst.Solver = "discharged", "syntactic"
		return
	}
	if expect == "" && o.refuted() >= 2 {
		// two paths already have a counterexample for this obligation: it is reported as failed
		// anyway, further instances would only cost solver time (a clause that fails fails on
		// hundreds of return paths of a large function)
		inst.Result, inst.Solver = "skipped", "not asked: the obligation already has counterexamples on other paths"
		return
	}
	if expect == "" && (atomic.LoadInt32(&o.nUnknown) >= 3) {
		inst.Result, inst.Solver = "skipped", "not asked: the obligation already failed on other paths"
		return
	}
	t0 := time.Now()
	x.sess.Push()
	x.sess.Assert(tNot(goal))
	r := "unknown"
	if atomic.LoadInt32(&o.nSessUnknown) < 3 {
		r = x.sess.Check()
		if r == "unknown" {
			atomic.AddInt32(&o.nSessUnknown, 1)
		}
	} // else: the incremental solver gave up on three instances of this obligation already - the
	// stand-alone solvers are asked directly (same verdict, without the wait)
	script := ""
	if r != "unsat" {
		script = x.sess.Script("(check-sat)", "(get-model)")
	}
	x.sess.Pop()
	for k, v := range x.declared {
		if v > len(x.sess.marks) {
			delete(x.declared, k)
		}
	}
	inst.Ms = time.Since(t0).Milliseconds()
	if r == "unsat" {
		inst.Result, inst.Solver = "discharged", "z3-5.1.0(incremental)"
		return
	}
	if r == "sat" {
		o.addRefuted()
	}
	for _, ev := range st.events {
		if ev.Callee == "(*stage.Stage).logDebug" || strings.HasPrefix(ev.Callee, "log.") || strings.HasPrefix(ev.Callee, "fmt.") {
			continue
		}
		inst.Trace = append(inst.Trace, ev.Kind+" "+ev.Callee)
	}
	x.nfile++
	file := filepath.Join(x.outDir, "smt", sanitize(x.fname), fmt.Sprintf("%03d_%s.smt2", x.nfile, sanitize(name)))
	if err := writeFile(file, "; obligation "+name+" at "+where+"\n"+script); err != nil {
		inst.Result = "unknown"
		inst.Solver = "write error: " + err.Error()
		return
	}
	inst.File = file
	raceMs := x.tier.RaceMs
	if expect == "fail" {
		// the known-region half of a known finding is expected not to be provable
		if r == "sat" {
			inst.Result, inst.Solver = "failed", "z3-5.1.0(incremental)"
			return
		}
		raceMs = 3000
	}
	x.wg.Add(1)
	go func() {
		defer x.wg.Done()
		obligGate <- struct{}{}
		defer func() { <-obligGate }()
		if expect == "" && (o.refuted() >= 2 || atomic.LoadInt32(&o.nUnknown) >= 3) {
			inst.Result, inst.Solver = "skipped", "not asked: the obligation already failed on other paths"
			return
		}
		w, answers := race(file, raceMs, x.tier.Seed, x.tier.AllSolv)
		if w.Result == "sat" {
			o.addRefuted()
		} else if w.Result != "unsat" && r != "sat" {
			atomic.AddInt32(&o.nUnknown, 1)
		}
		inst.Answers = answers
		inst.Ms += w.Ms
		switch w.Result {
		case "unsat":
			inst.Result, inst.Solver = "discharged", w.Solver
		case "sat":
			inst.Result, inst.Solver = "failed", w.Solver
			inst.Model = w.Output
		default:
			inst.Result, inst.Solver = "unknown", "none"
			if r == "sat" {
				// the incremental session had a model although the race timed out
				inst.Result = "failed"
				inst.Solver = "z3-5.1.0(incremental)"
			}
		}
		// disagreement check
		sawSat, sawUnsat := false, false
		for _, a := range answers {
			if a.Result == "sat" {
				sawSat = true
			}
			if a.Result == "unsat" {
				sawUnsat = true
			}
		}
		if sawSat && sawUnsat {
			inst.Result = "unknown"
			inst.Solver = "solver-disagreement"
		}
	}()
}

func sanitize(s string) string {
	var b strings.Builder
	for _, c := range s {
		if c >= 'a' && c <= 'z' || c >= 'A' && c <= 'Z' || c >= '0' && c <= '9' || c == '.' || c == '-' || c == '_' || c == '@' {
			b.WriteRune(c)
		} else {
			b.WriteByte('_')
		}
	}
	return b.String()
}

// ---------------------------------------------------------------------------
// Entry

func (x *Exec) verify() {
	fn := x.fn
	st := &State{heap: map[string]heapVer{}}
	w0 := Term{"W0", sInt}
	x.sess.Emit("(declare-const W0 Int)")
	x.sess.Emit("(assert (> W0 0))")
	st.water = w0
	st.genW = w0
	x.entryW = w0
	fr := x.newFrame(st, fn, x.fc, nil, nil)
	st.frames = []*Frame{fr}
	x.params = fr.params
	x.entry = x.view(st)
	fr.entryView = x.entry
	// requires
	env := x.envFor(st, fr)
	env.entryParams = true
	for _, r := range x.fc.Requires {
		if r.Expr == nil {
			continue
		}
		t, ok := env.evalBool(r.Expr)
		if !ok {
			x.unsupported("requires " + r.Src + ": " + env.err)
			continue
		}
		x.assume(t)
	}
	if len(x.fc.Requires) > 0 {
		if r := x.sess.Check(); r == "unsat" {
			x.vacuity = append(x.vacuity, "requires of "+x.fname+" is unsatisfiable")
		}
	}
	x.entry = x.view(st)
	fr.entryView = x.entry
	x.run(st)
	x.wg.Wait()
	// vacuity: a call-site assertion whose pattern selects no call site asserts nothing
	if x.aborted == "" {
		for k, ca := range x.fc.Calls {
			if !ca.Forbid && !x.matched[k] {
				x.unsupported(fmt.Sprintf("call-site clause %q selects no %s site in %s (pattern %s)", labelOr(ca.Clause.Label, k), ca.Pattern.Kind, x.fname, ca.Pattern.Src))
			}
		}
	}
}

func (x *Exec) newFrame(st *State, fn *ssa.Function, fc *FuncContract, args []Val, binds []Val) *Frame {
	fr := &Frame{fn: fn, contract: fc, vals: map[ssa.Value]Val{}, cells: map[*ssa.Alloc]int{}, params: map[string]Val{}, allocSeq: map[string][]int{}, locals: map[string][]Val{}}
	if len(fn.Blocks) > 0 {
		fr.block = fn.Blocks[0]
	}
	for i, p := range fn.Params {
		var v Val
		if args != nil && i < len(args) {
			v = x.convertTo(st, args[i], p.Type())
		} else {
			v = x.freshVal(st, p.Type(), "p!"+p.Name())
		}
		fr.vals[p] = v
		fr.params[p.Name()] = v
	}
	for i, fv := range fn.FreeVars {
		var v Val
		if binds != nil && i < len(binds) {
			v = binds[i]
		} else {
			v = x.freshVal(st, fv.Type(), "fv!"+fv.Name())
		}
		fr.vals[fv] = v
		fr.locals[fv.Name()] = append(fr.locals[fv.Name()], v)
	}
	return fr
}

// convertTo adapts an argument value to a parameter type (nil, func values).
func (x *Exec) convertTo(st *State, v Val, t types.Type) Val {
	if v.K == KNil {
		return x.zeroVal(t)
	}
	return v
}

// ---------------------------------------------------------------------------
// Main loop

const maxSteps = 400000

func (x *Exec) abort(reason string) {
	if x.aborted == "" {
		x.aborted = reason
	}
}

func (x *Exec) endPath(st *State) { x.paths++ }

func (x *Exec) run(st *State) {
	for {
		if x.aborted != "" {
			return
		}
		x.steps++
		if x.steps > maxSteps {
			x.abort("step limit")
			return
		}
		if x.paths > x.tier.PathCap {
			x.abort(fmt.Sprintf("path cap %d", x.tier.PathCap))
			return
		}
		if x.sess.dead {
			x.abort("solver session died")
			return
		}
		fr := st.top()
		if fr.block == nil || fr.pc >= len(fr.block.Instrs) {
			x.abort("fell off block in " + fr.fn.String())
			return
		}
		instr := fr.block.Instrs[fr.pc]
		switch i := instr.(type) {
		case *ssa.If:
			c := x.val(st, fr, i.Cond)
			ct := c.T
			if c.K != KScalar || ct.Sort != sBool {
				x.unsupported("non-boolean branch condition")
				ct = x.fresh("cond", sBool)
			}
			succs := fr.block.Succs
			if ct.S == "true" {
				if !x.enter(st, fr, succs[0]) {
					return
				}
				continue
			}
			if ct.S == "false" {
				if !x.enter(st, fr, succs[1]) {
					return
				}
				continue
			}
			firstUnsat := false
			// a branch on the fresh boolean result of a call without postcondition is feasible both ways
			atom := strings.TrimSuffix(strings.TrimPrefix(ct.S, "(not "), ")")
			skipFeas := strings.HasPrefix(strings.TrimPrefix(atom, "|"), "ret!") && !strings.ContainsAny(atom, " (") && !x.constrained[atom]
			if skipFeas {
				x.constrained[atom] = true
			}
			for k := 0; k < 2; k++ {
				ck := ct
				if k == 1 {
					ck = tNot(ct)
				}
				x.sess.Push()
				x.assume(ck)
				r := "sat"
				if !(k == 1 && firstUnsat) && !skipFeas {
					r = x.sess.Feasible()
				}
				if r == "unsat" {
					if k == 0 {
						firstUnsat = true
					}
					x.popScope()
					continue
				}
				st2 := st
				if k == 0 {
					st2 = st.clone()
				}
				fr2 := st2.top()
				if x.enter(st2, fr2, succs[k]) {
					x.run(st2)
				}
				x.popScope()
			}
			return
		case *ssa.Jump:
			if !x.enter(st, fr, fr.block.Succs[0]) {
				return
			}
		case *ssa.Return:
			if x.doReturn(st, fr, i) {
				return
			}
		case *ssa.Panic:
			x.endPath(st)
			return
		case *ssa.RunDefers:
			if !fr.inDefers {
				fr.inDefers = true
				fr.running = append([]deferred(nil), fr.defers...)
				fr.defers = nil
			}
			if len(fr.running) == 0 {
				fr.inDefers = false
				fr.pc++
				continue
			}
			d := fr.running[len(fr.running)-1]
			fr.running = fr.running[:len(fr.running)-1]
			if !x.doCall(st, fr, d.pos, d.call, "call", nil, d.args, true) {
				return
			}
		case *ssa.Call:
			fr.pc++
			if !x.doCall(st, fr, i, &i.Call, "call", i, nil, false) {
				return
			}
		case *ssa.Go:
			fr.pc++
			if !x.doCall(st, fr, i, &i.Call, "go", nil, nil, false) {
				return
			}
		case *ssa.Defer:
			fr.pc++
			args := x.callArgs(st, fr, &i.Call)
			fr.defers = append(fr.defers, deferred{call: &i.Call, args: args, pos: i})
			x.callSite(st, fr, "defer", x.calleeName(st, fr, &i.Call), args, nil, "before", i)
			x.addEvent(st, "defer", x.calleeName(st, fr, &i.Call), args)
		default:
			x.step(st, fr, instr)
			fr.pc++
		}
	}
}

// enter moves to block `to`; returns false when the path ends (back edge).
func (x *Exec) enter(st *State, fr *Frame, to *ssa.BasicBlock) bool {
	from := fr.block
	if len(st.frames) > 0 && fr == st.frames[0] {
		if x.visited == nil {
			x.visited = map[*ssa.BasicBlock]bool{}
		}
		x.visited[to] = true
	}
	li := x.loopsOf(fr.fn)
	if body, isHead := li.body[to]; isHead {
		ord := li.ord[to]
		var spec *LoopSpec
		if len(st.frames) == 1 && fr.contract != nil {
			spec = fr.contract.Loops[strconv.Itoa(ord)]
		} else if x.fc != nil && len(st.frames) > 1 {
			// a closure of the function under verification running as a callback: "$k.N"
			rootName := st.frames[0].fn.String()
			if name := fr.fn.String(); strings.HasPrefix(name, rootName+"$") {
				spec = x.fc.Loops[name[len(rootName):]+"."+strconv.Itoa(ord)]
			}
		}
		where := fmt.Sprintf("loop %d of %s", ord, fr.fn.Name())
		if body[from] {
			// back edge: invariant preserved
			if spec != nil {
				env := x.envFor(st, fr)
				env.loopHead = to
				for k, inv := range spec.Invariants {
					x.proveClause(st, env, inv, fmt.Sprintf("%s/loop%d-preserved:%s", x.fname, ord, labelOr(inv.Label, k)), "invariant-preserved", where)
				}
				for k, be := range spec.Backedge {
					env2 := x.envFor(st, fr)
					env2.loopHead = to
					env2.eventFloor = fr.loopMark[to]
					env2.floorLoop = to
					x.proveClause(st, env2, be, fmt.Sprintf("%s/loop%d-backedge:%s", x.fname, ord, labelOr(be.Label, k)), "loop-backedge", where)
				}
				if spec.Decreases != nil {
					if m0, ok := fr.measures[to]; ok {
						m1, ok2 := env.evalInt(spec.Decreases.Expr)
						if ok2 {
							goal := tAnd(app(sBool, "<", m1, m0), app(sBool, "<=", tZero, m0))
							x.prove(st, fmt.Sprintf("%s/loop%d-decreases", x.fname, ord), "decreases", spec.Decreases.Src, goal, where)
						} else {
							x.unsupported("decreases: " + env.err)
						}
					}
				}
			}
			x.endPath(st)
			return false
		}
		// loop entry: init, havoc, assume
		{
			ne := map[*ssa.BasicBlock]*loopSnap{}
			for k, v := range fr.loopEntry {
				ne[k] = v
			}
			ne[to] = &loopSnap{view: x.view(st), cells: append([]Val(nil), st.cells...)}
			fr.loopEntry = ne
		}
		if spec != nil {
			env := x.envFor(st, fr)
			env.loopHead = to
			for k, inv := range spec.Invariants {
				x.proveClause(st, env, inv, fmt.Sprintf("%s/loop%d-init:%s", x.fname, ord, labelOr(inv.Label, k)), "invariant-init", where)
			}
		}
		eff := x.P.loopEffect(fr.fn, li, to)
		x.havocEffect(st, fr, eff)
		nm := map[*ssa.BasicBlock]int{}
		for k, v := range fr.loopMark {
			nm[k] = v
		}
		nm[to] = len(st.events)
		fr.loopMark = nm
		if len(st.frames) > 0 && fr == st.frames[0] {
			x.addMaybeEvents(st, to, body)
		}
		if spec != nil {
			env := x.envFor(st, fr)
			env.loopHead = to
			for _, inv := range spec.Invariants {
				if inv.Expr == nil {
					continue
				}
				t, ok := env.evalBool(inv.Expr)
				if ok {
					x.assume(t)
				} else {
					x.unsupported("invariant " + inv.Src + ": " + env.err)
				}
			}
			if spec.Decreases != nil {
				if m, ok := env.evalInt(spec.Decreases.Expr); ok {
					if fr.measures == nil {
						fr.measures = map[*ssa.BasicBlock]Term{}
					} else {
						nm := map[*ssa.BasicBlock]Term{}
						for k, v := range fr.measures {
							nm[k] = v
						}
						fr.measures = nm
					}
					fr.measures[to] = x.name("measure", m)
				}
			}
		}
	}
	if _, isHead := li.body[to]; isHead {
		nh := map[*ssa.BasicBlock]*loopSnap{}
		for k, v := range fr.loopHeadSnap {
			nh[k] = v
		}
		nh[to] = &loopSnap{view: x.view(st), cells: append([]Val(nil), st.cells...)}
		fr.loopHeadSnap = nh
	}
	fr.prev = from
	fr.block = to
	fr.pc = 0
	return true
}

func labelOr(l string, k int) string {
	if l != "" {
		return l
	}
	return fmt.Sprintf("%d", k)
}

func (x *Exec) proveClause(st *State, env *Env, cl Clause, name, kind, where string) {
	if cl.Expr == nil {
		x.unsupported("unparsed clause " + cl.Src)
		return
	}
	x.pure++
	t, ok := env.evalBool(cl.Expr)
	x.pure--
	if !ok {
		if env.missingEvent {
			// the clause speaks about a call that did not happen on this path (and is not guarded by
			// called(...) ==>): it does not hold here
			x.prove(st, name, kind, cl.Src+"   ["+env.err+"]", tFalse, where)
			return
		}
		x.unsupported(name + ": " + env.err)
		return
	}
	x.prove(st, name, kind, cl.Src, t, where)
}

// havocEffect forgets what a loop (or call) may modify.
func (x *Exec) havocEffect(st *State, fr *Frame, eff *effect) {
	wOld := st.water // objects below this mark existed before the loop / call
	if eff.all {
		x.havocAll(st)
	} else {
		if eff.alloc || len(eff.keys) > 0 {
			x.bumpWater(st)
		}
		wBefore := wOld
		for _, k := range sortedKeys(eff.keys) {
			var oldT Term
			freshOnly := eff.other != nil && !eff.other[k]
			if freshOnly {
				oldT = x.heapTerm(nil, st, k, eff.keys[k]).T
			}
			x.heapHavocKey(st, k, eff.keys[k])
			if freshOnly {
				// written through freshly allocated temporaries only: older objects keep their contents
				nt := st.heap[k].T
				x.assume(Term{fmt.Sprintf("(forall ((fa Int)) (! (=> (< fa %s) (= (select %s fa) (select %s fa))) :pattern ((select %s fa))))", x.waterBefore(wBefore).S, nt.S, oldT.S, nt.S), sBool})
			}
		}
	}
	var allocs []*ssa.Alloc
	for a := range eff.cells {
		allocs = append(allocs, a)
	}
	sort.Slice(allocs, func(i, j int) bool { return allocs[i].Pos() < allocs[j].Pos() || allocs[i].Pos() == allocs[j].Pos() && allocs[i].Name() < allocs[j].Name() })
	for _, a := range allocs {
		if id, ok := fr.cells[a]; ok {
			st.cells[id] = x.freshVal(st, deref(a.Type()), "loop!"+a.Comment)
		}
	}
}

// ---------------------------------------------------------------------------
// Values

func (x *Exec) val(st *State, fr *Frame, v ssa.Value) Val {
	if r, ok := fr.vals[v]; ok {
		return r
	}
	switch c := v.(type) {
	case *ssa.Const:
		return x.constVal(c)
	case *ssa.Function:
		return Val{K: KClosure, Fn: c, Typ: c.Type()}
	case *ssa.Global:
		name := c.String()
		return Val{K: KPtr, Typ: c.Type(), P: &Ptr{Kind: PObj, Base: x.reg.globalRef(name), Elem: deref(c.Type())}}
	case *ssa.Builtin:
		return Val{K: KUnit}
	}
	x.unsupported(fmt.Sprintf("value %T %s has no binding", v, v.Name()))
	return x.freshVal(st, v.Type(), "unbound")
}

func (x *Exec) constVal(c *ssa.Const) Val {
	t := c.Type()
	if c.Value == nil {
		// zero value / nil
		if _, ok := under(t).(*types.Basic); ok && under(t).(*types.Basic).Kind() == types.UntypedNil {
			return Val{K: KNil, Typ: t}
		}
		return x.zeroVal(t)
	}
	switch c.Value.Kind() {
	case constant.Bool:
		return scalar(boolLit(constant.BoolVal(c.Value)), t)
	case constant.String:
		return scalar(strLit(constant.StringVal(c.Value)), t)
	case constant.Int:
		if b, ok := under(t).(*types.Basic); ok && b.Info()&types.IsFloat != 0 {
			return scalar(Term{c.Value.ExactString() + ".0", sReal}, t)
		}
		return scalar(bigLit(c.Value.ExactString()), t)
	case constant.Float:
		r := constant.ToFloat(c.Value)
		num, den := constant.Num(r), constant.Denom(r)
		if num.Kind() == constant.Int && den.Kind() == constant.Int {
			n := num.ExactString()
			neg := strings.HasPrefix(n, "-")
			n = strings.TrimPrefix(n, "-")
			s := "(/ " + n + ".0 " + den.ExactString() + ".0)"
			if neg {
				s = "(- " + s + ")"
			}
			return scalar(Term{s, sReal}, t)
		}
	}
	x.unsupported("constant " + c.String())
	return scalar(Term{"0", sInt}, t)
}

func (x *Exec) bind(fr *Frame, v ssa.Value, r Val) { fr.vals[v] = r }

// ---------------------------------------------------------------------------
// Straight-line instructions

func (x *Exec) step(st *State, fr *Frame, instr ssa.Instruction) {
	switch i := instr.(type) {
	case *ssa.DebugRef:
	case *ssa.Alloc:
		et := deref(i.Type())
		if !i.Heap {
			id := len(st.cells)
			st.cells = append(st.cells, x.zeroVal(et))
			fr.cells[i] = id
			pv := Val{K: KPtr, Typ: i.Type(), P: &Ptr{Kind: PCell, Cell: id}}
			x.bind(fr, i, pv)
			if i.Comment != "" {
				fr.locals[i.Comment] = append(append([]Val(nil), fr.locals[i.Comment]...), pv)
			}
			return
		}
		p := x.allocObj(st, et, i.Comment, true)
		pv := Val{K: KPtr, Typ: i.Type(), P: p}
		x.bind(fr, i, pv)
		if i.Comment == "varargs" {
			x.varargs[p.Base.S] = map[int]Val{}
		}
		if _, isStruct := structOf(et); !isStruct && leavesOf(et) != nil && i.Comment != "complit" && i.Comment != "varargs" && i.Comment != "new" && i.Comment != "makeslice" {
			// a named local that escapes (captured by a closure later on, or address taken)
			st.localCells = append(st.localCells, &localCell{p: p, t: et, captured: addressEscapes(i)})
		}
		if i.Comment != "" && i.Comment != "complit" && i.Comment != "varargs" && i.Comment != "new" && i.Comment != "makeslice" {
			fr.locals[i.Comment] = append(append([]Val(nil), fr.locals[i.Comment]...), pv)
		}
	case *ssa.Store:
		a := x.val(st, fr, i.Addr)
		v := x.val(st, fr, i.Val)
		if a.K != KPtr {
			x.unsupported("store through non-pointer value")
			return
		}
		if name := storeName(i.Addr); name != "" && x.fc != nil && x.fc.wantsStore(name) {
			// stores to named variables and fields are effects that call-site assertions can guard
			base := Val{K: KNil}
			if fa, ok := i.Addr.(*ssa.FieldAddr); ok {
				base = x.val(st, fr, fa.X)
			}
			x.callSite(st, fr, "store", "store:"+name, []Val{x.convertTo(st, v, i.Val.Type()), base}, nil, "before", i)
			x.addEvent(st, "store", "store:"+name, []Val{x.convertTo(st, v, i.Val.Type()), base})
		}
		if a.P.Kind == PElem && v.K == KIface && isNumLit(a.P.Idx.S) {
			if m, ok := x.varargs[a.P.Arr.S]; ok {
				if o, ok := x.unboxed[v.Fs[0].T.S+"|"+v.Fs[1].T.S]; ok {
					n, _ := strconv.Atoi(a.P.Idx.S)
					m[n] = o
				}
			}
		}
		x.storePtr(st, a.P, i.Val.Type(), x.convertTo(st, v, i.Val.Type()))
	case *ssa.UnOp:
		x.bind(fr, i, x.unop(st, fr, i))
	case *ssa.BinOp:
		a, b := x.val(st, fr, i.X), x.val(st, fr, i.Y)
		x.bind(fr, i, x.binop(st, i.Op, a, b, i.X.Type(), i.Type()))
	case *ssa.FieldAddr:
		p := x.val(st, fr, i.X)
		if p.K == KPtr && isWrapper(deref(i.X.Type())) {
			x.bind(fr, i, Val{K: KPtr, Typ: i.Type(), P: p.P})
			return
		}
		if p.K != KPtr {
			x.unsupported("field address of non-pointer")
			x.bind(fr, i, x.freshVal(st, i.Type(), "fa"))
			return
		}
		if p.P.Kind == PObj && !isNumLit(p.P.Base.S) {
			// taking a field address through a nil pointer panics: the continuing path has a non-nil base
			if x.fc != nil && x.fc.Safety {
				x.prove(st, x.fname+"/safety:nil", "safety", "non-nil dereference", tNot(tEq(p.P.Base, tNil)), x.P.pos(i.Pos()))
			}
			x.assume(tNot(tEq(p.P.Base, tNil)))
		}
		x.bind(fr, i, Val{K: KPtr, Typ: i.Type(), P: x.fieldPtr(st, p.P, i.Field)})
	case *ssa.Field:
		s := x.val(st, fr, i.X)
		if isWrapper(i.X.Type()) {
			s.Typ = i.Type()
			x.bind(fr, i, s)
			return
		}
		if s.K == KStruct && i.Field < len(s.Fs) {
			x.bind(fr, i, s.Fs[i.Field])
		} else {
			x.bind(fr, i, x.freshVal(st, i.Type(), "field"))
		}
	case *ssa.IndexAddr:
		xv := x.val(st, fr, i.X)
		idx := x.val(st, fr, i.Index).T
		switch xt := under(i.X.Type()).(type) {
		case *types.Slice:
			if xv.K != KSlice {
				x.unsupported("index address of non-slice value")
				x.bind(fr, i, x.freshVal(st, i.Type(), "ia"))
				return
			}
			x.boundsCheck(st, fr, idx, xv.Fs[2].T, i)
			x.bind(fr, i, Val{K: KPtr, Typ: i.Type(), P: x.elemPtr(xv.Fs[0].T, x.idx(xv.Fs[1].T, idx), xt.Elem())})
		case *types.Pointer:
			at, _ := under(xt.Elem()).(*types.Array)
			if xv.K != KPtr || xv.P.Kind != PObj || at == nil {
				x.unsupported("index address through " + xv.String())
				x.bind(fr, i, x.freshVal(st, i.Type(), "ia"))
				return
			}
			x.boundsCheck(st, fr, idx, intLit(at.Len()), i)
			x.bind(fr, i, Val{K: KPtr, Typ: i.Type(), P: x.elemPtr(xv.P.Base, idx, at.Elem())})
		default:
			x.unsupported("index address of " + typeName(i.X.Type()))
			x.bind(fr, i, x.freshVal(st, i.Type(), "ia"))
		}
	case *ssa.Index:
		x.bind(fr, i, x.freshVal(st, i.Type(), "index"))
	case *ssa.Lookup:
		x.bind(fr, i, x.lookup(st, fr, i))
	case *ssa.Slice:
		x.bind(fr, i, x.sliceOp(st, fr, i))
	case *ssa.Extract:
		t := x.val(st, fr, i.Tuple)
		if t.K == KTuple && i.Index < len(t.Fs) {
			x.bind(fr, i, t.Fs[i.Index])
		} else {
			x.bind(fr, i, x.freshVal(st, i.Type(), "extract"))
		}
	case *ssa.Phi:
		for k, p := range fr.block.Preds {
			if p == fr.prev {
				x.bind(fr, i, x.val(st, fr, i.Edges[k]))
				return
			}
		}
		x.bind(fr, i, x.freshVal(st, i.Type(), "phi"))
	case *ssa.MakeInterface:
		v := x.val(st, fr, i.X)
		x.bind(fr, i, x.makeIface(st, v, i.X.Type(), i.Type()))
	case *ssa.ChangeInterface:
		v := x.val(st, fr, i.X)
		v.Typ = i.Type()
		x.bind(fr, i, v)
	case *ssa.ChangeType:
		v := x.val(st, fr, i.X)
		if v.K == KNil {
			v = x.zeroVal(i.Type())
		}
		v.Typ = i.Type()
		x.bind(fr, i, v)
	case *ssa.Convert:
		x.bind(fr, i, x.convert(st, x.val(st, fr, i.X), i.X.Type(), i.Type()))
	case *ssa.TypeAssert:
		x.bind(fr, i, x.typeAssert(st, fr, i))
	case *ssa.MakeClosure:
		var binds []Val
		for _, b := range i.Bindings {
			bv := x.val(st, fr, b)
			binds = append(binds, bv)
			if bv.K == KPtr && bv.P.Kind == PObj {
				for _, lc := range st.localCells {
					if lc.p.Kind == PObj && lc.p.Base.S == bv.P.Base.S {
						lc.captured = true
					}
				}
			}
		}
		x.bind(fr, i, Val{K: KClosure, Fn: i.Fn.(*ssa.Function), Binds: binds, Typ: i.Type()})
	case *ssa.MakeMap:
		mt := under(i.Type()).(*types.Map)
		r := x.fresh("map", sInt)
		x.assume(tAnd(app(sBool, ">=", r, st.water), app(sBool, ">", r, tZero)))
		st.water = x.name("W", app(sInt, "+", r, intLit(1)))
		if ks := scalarSort(mt.Key()); ks != "" {
			k := "M|" + typeName(mt.Key()) + "|" + typeName(mt.Elem()) + "|#present"
			srt := arrSort(sInt, arrSort(ks, sBool))
			h := x.heapTerm(nil, st, k, srt)
			empty := Term{"((as const " + arrSort(ks, sBool) + ") false)", arrSort(ks, sBool)}
			x.heapSet(st, k, tStore(h.T, r, empty))
		}
		x.bind(fr, i, scalar(r, i.Type()))
	case *ssa.MakeSlice:
		stt := under(i.Type()).(*types.Slice)
		ln := x.val(st, fr, i.Len).T
		cp := x.val(st, fr, i.Cap).T
		r := x.fresh("mkslice", sInt)
		x.assume(tAnd(app(sBool, ">=", r, st.water), app(sBool, ">", r, tZero)))
		st.water = x.name("W", app(sInt, "+", r, intLit(1)))
		// zero-filled backing array
		x.zeroFill(st, r, stt.Elem())
		x.bind(fr, i, Val{K: KSlice, Typ: i.Type(), Fs: []Val{scalar(r, nil), scalar(tZero, nil), scalar(ln, nil), scalar(cp, nil)}})
	case *ssa.MakeChan:
		r := x.fresh("chan", sInt)
		x.assume(app(sBool, ">", r, tZero))
		x.bind(fr, i, scalar(r, i.Type()))
	case *ssa.MapUpdate:
		x.callSite(st, fr, "mapupdate", "map:"+dynName(i.Map), []Val{x.val(st, fr, i.Map), x.val(st, fr, i.Key), x.val(st, fr, i.Value)}, nil, "before", i)
		x.mapUpdate(st, fr, i)
	case *ssa.Range:
		x.bind(fr, i, Val{K: KScalar, T: x.val(st, fr, i.X).T, Typ: i.X.Type()})
	case *ssa.Next:
		x.bind(fr, i, x.next(st, fr, i))
	case *ssa.Select:
		n := len(i.States)
		idx := x.fresh("select", sInt)
		lo := tZero
		if !i.Blocking {
			lo = intLit(-1)
		}
		x.assume(tAnd(app(sBool, "<=", lo, idx), app(sBool, "<", idx, intLit(int64(n)))))
		for k, sst := range i.States {
			if sst.Dir == types.SendOnly && x.fc != nil && len(x.fc.Calls) > 0 {
				// a send that happens if this case is chosen
				x.sess.Push()
				x.assume(tEq(idx, intLit(int64(k))))
				x.callSite(st, fr, "send", "chan-send", []Val{x.val(st, fr, sst.Chan), x.val(st, fr, sst.Send)}, nil, "before", i)
				x.popScope()
			}
		}
		tup := Val{K: KTuple, Typ: i.Type(), Fs: []Val{scalar(idx, nil), scalar(x.fresh("recvok", sBool), nil)}}
		tt := i.Type().(*types.Tuple)
		for k := 2; k < tt.Len(); k++ {
			tup.Fs = append(tup.Fs, x.freshVal(st, tt.At(k).Type(), "recv"))
		}
		x.bind(fr, i, tup)
	case *ssa.Send:
		x.callSite(st, fr, "send", "chan-send", []Val{x.val(st, fr, i.Chan), x.val(st, fr, i.X)}, nil, "before", i)
	default:
		x.unsupported(fmt.Sprintf("instruction %T", instr))
		if v, ok := instr.(ssa.Value); ok {
			x.bind(fr, v, x.freshVal(st, v.Type(), "unsupported"))
		}
	}
}

func (x *Exec) zeroFill(st *State, arr Term, et types.Type) {
	if _, isStruct := structOf(et); isStruct {
		return // contents unknown (over-approximation)
	}
	for _, l := range leavesOf(et) {
		k := elemKey(et, l.suffix)
		srt := keySort(k, l.sort)
		h := x.heapTerm(nil, st, k, srt)
		zero := Term{"((as const " + arrSort(sInt, l.sort) + ") " + zeroOfSort(l.sort).S + ")", arrSort(sInt, l.sort)}
		x.heapSet(st, k, tStore(h.T, arr, zero))
	}
}

func (x *Exec) add(a, b Term) Term {
	if a.S == "0" {
		return b
	}
	if b.S == "0" {
		return a
	}
	return app(sInt, "+", a, b)
}

func (x *Exec) boundsCheck(st *State, fr *Frame, idx, ln Term, at ssa.Instruction) {
	if x.fc == nil || !x.fc.Safety || x.pure > 0 {
		return
	}
	goal := tAnd(app(sBool, "<=", tZero, idx), app(sBool, "<", idx, ln))
	x.prove(st, x.fname+"/safety:index", "safety", "index in range", goal, x.P.pos(at.Pos()))
}

func (x *Exec) unop(st *State, fr *Frame, i *ssa.UnOp) Val {
	v := x.val(st, fr, i.X)
	switch i.Op {
	case token.MUL:
		if g, ok := i.X.(*ssa.Global); ok && !x.P.inRepoPkg(g.Pkg) {
			return x.constGlobal(st, g)
		}
		if v.K != KPtr {
			x.unsupported("load through non-pointer value " + v.String())
			return x.freshVal(st, i.Type(), "load")
		}
		if v.P.Kind != PCell && x.fc != nil && x.fc.Safety && v.P.Kind == PObj {
			x.prove(st, x.fname+"/safety:nil", "safety", "non-nil dereference", tNot(tEq(v.P.Base, tNil)), x.P.pos(i.Pos()))
		}
		return x.loadPtr(st, nil, v.P, i.Type())
	case token.NOT:
		return scalar(tNot(v.T), i.Type())
	case token.SUB:
		if v.T.Sort == sReal {
			return scalar(app(sReal, "-", v.T), i.Type())
		}
		return scalar(app(sInt, "-", v.T), i.Type())
	case token.ARROW:
		if i.CommaOk {
			return Val{K: KTuple, Typ: i.Type(), Fs: []Val{x.freshVal(st, i.Type().(*types.Tuple).At(0).Type(), "recv"), scalar(x.fresh("recvok", sBool), nil)}}
		}
		return x.freshVal(st, i.Type(), "recv")
	case token.XOR:
		return scalar(x.uf("bitnot", sInt, v.T), i.Type())
	}
	x.unsupported("unary op " + i.Op.String())
	return x.freshVal(st, i.Type(), "unop")
}

// constGlobal: package-level variables of libraries are treated as constants (A10).
func (x *Exec) constGlobal(st *State, g *ssa.Global) Val {
	t := deref(g.Type())
	name := g.String()
	x.trust("A10 library variable " + name + " is a constant")
	if ls := leavesOf(t); ls != nil {
		v := x.valFromLeaves(t, func(l leaf) Term { return x.uf("gc!"+name+l.suffix, l.sort) })
		if v.K == KIface {
			x.assume(app(sBool, ">", v.Fs[0].T, tZero))
		}
		return v
	}
	return x.freshVal(st, t, "gc")
}

func (x *Exec) binop(st *State, op token.Token, a, b Val, opnd types.Type, res types.Type) Val {
	// comparisons on composite values
	if op == token.EQL || op == token.NEQ {
		eq := x.valEq(a, b)
		if op == token.NEQ {
			eq = tNot(eq)
		}
		return scalar(eq, res)
	}
	at, bt := a.T, b.T
	if a.K != KScalar || b.K != KScalar {
		x.unsupported("binary op " + op.String() + " on composite values")
		return x.freshVal(st, res, "binop")
	}
	if at.Sort == sStr {
		switch op {
		case token.ADD:
			return scalar(x.name("cat", app(sStr, "str.++", at, bt)), res)
		case token.LSS:
			return scalar(app(sBool, "str.<", at, bt), res)
		case token.LEQ:
			return scalar(app(sBool, "str.<=", at, bt), res)
		case token.GTR:
			return scalar(app(sBool, "str.<", bt, at), res)
		case token.GEQ:
			return scalar(app(sBool, "str.<=", bt, at), res)
		}
	}
	if at.Sort == sBool {
		switch op {
		case token.AND, token.LAND:
			return scalar(tAnd(at, bt), res)
		case token.OR, token.LOR:
			return scalar(tOr(at, bt), res)
		}
	}
	sort := sInt
	if at.Sort == sReal || bt.Sort == sReal {
		sort = sReal
		at, bt = coerce(at, sReal), coerce(bt, sReal)
	}
	switch op {
	case token.ADD:
		return scalar(x.name("add", app(sort, "+", at, bt)), res)
	case token.SUB:
		return scalar(x.name("sub", app(sort, "-", at, bt)), res)
	case token.MUL:
		return scalar(x.name("mul", app(sort, "*", at, bt)), res)
	case token.QUO:
		if sort == sReal {
			return scalar(app(sReal, "/", at, bt), res)
		}
		return scalar(app(sInt, "godiv", at, bt), res)
	case token.REM:
		return scalar(app(sInt, "gomod", at, bt), res)
	case token.LSS:
		return scalar(app(sBool, "<", at, bt), res)
	case token.LEQ:
		return scalar(app(sBool, "<=", at, bt), res)
	case token.GTR:
		return scalar(app(sBool, ">", at, bt), res)
	case token.GEQ:
		return scalar(app(sBool, ">=", at, bt), res)
	case token.AND:
		if a, ok := parseSMTInt(at.S); ok {
			if b, ok := parseSMTInt(bt.S); ok && a >= 0 && b >= 0 {
				return scalar(intLit(a&b), res)
			}
		}
		return scalar(app(sInt, "bitand", at, bt), res)
	case token.OR:
		if a, ok := parseSMTInt(at.S); ok {
			if b, ok := parseSMTInt(bt.S); ok && a >= 0 && b >= 0 {
				return scalar(intLit(a|b), res)
			}
		}
		return scalar(app(sInt, "bitor", at, bt), res)
	case token.XOR:
		return scalar(app(sInt, "bitxor", at, bt), res)
	case token.SHL:
		return scalar(app(sInt, "shl", at, bt), res)
	case token.SHR:
		return scalar(app(sInt, "shr", at, bt), res)
	case token.AND_NOT:
		return scalar(app(sInt, "andnot", at, bt), res)
	}
	x.unsupported("binary op " + op.String())
	return x.freshVal(st, res, "binop")
}

// valEq: equality of two values of the same type.
func (x *Exec) valEq(a, b Val) Term {
	if a.K == KNil && b.K == KNil {
		return tTrue
	}
	if a.K == KNil {
		a, b = b, a
	}
	if b.K == KNil {
		switch a.K {
		case KIface:
			return tEq(a.Fs[0].T, tZero)
		case KSlice:
			return tEq(a.Fs[0].T, tZero)
		case KPtr, KClosure:
			return tEq(x.ptrTerm(a), tNil)
		case KScalar:
			return tEq(a.T, tNil)
		}
		return tFalse
	}
	// an interface value against the pointer it holds (receiver of a devirtualized call)
	if a.K == KIface && (b.K == KPtr || b.K == KClosure) {
		return tAnd(tNot(tEq(a.Fs[0].T, tZero)), tEq(a.Fs[1].T, x.ptrTerm(b)))
	}
	if b.K == KIface && (a.K == KPtr || a.K == KClosure) {
		return tAnd(tNot(tEq(b.Fs[0].T, tZero)), tEq(b.Fs[1].T, x.ptrTerm(a)))
	}
	switch a.K {
	case KScalar:
		if b.K == KScalar {
			bt := b.T
			at := a.T
			if at.Sort != bt.Sort {
				if at.Sort == sReal || bt.Sort == sReal {
					at, bt = coerce(at, sReal), coerce(bt, sReal)
				}
			}
			return tEq(at, bt)
		}
		return tEq(a.T, x.ptrTerm(b))
	case KPtr, KClosure:
		return tEq(x.ptrTerm(a), x.ptrTerm(b))
	case KIface:
		if b.K == KIface {
			return tAnd(tEq(a.Fs[0].T, b.Fs[0].T), tEq(a.Fs[1].T, b.Fs[1].T))
		}
	case KSlice:
		if b.K == KSlice {
			zero := func(v Val) bool { return v.Fs[0].T.S == "0" && v.Fs[2].T.S == "0" }
			if zero(b) {
				return tEq(a.Fs[0].T, tZero) // s == nil
			}
			if zero(a) {
				return tEq(b.Fs[0].T, tZero)
			}
			return tAnd(tEq(a.Fs[0].T, b.Fs[0].T), tEq(a.Fs[1].T, b.Fs[1].T), tEq(a.Fs[2].T, b.Fs[2].T))
		}
	case KStruct:
		if b.K == KStruct && len(a.Fs) == len(b.Fs) {
			var cs []Term
			for i := range a.Fs {
				if a.Fs[i].K == KUnit {
					continue
				}
				cs = append(cs, x.valEq(a.Fs[i], b.Fs[i]))
			}
			return tAnd(cs...)
		}
	}
	x.unsupported("equality on " + a.String())
	return x.fresh("eq", sBool)
}

func (x *Exec) makeIface(st *State, v Val, from, to types.Type) Val {
	r := x.makeIface1(st, v, from, to)
	if r.K == KIface && v.K != KIface {
		o := v
		o.Typ = from
		x.unboxed[r.Fs[0].T.S+"|"+r.Fs[1].T.S] = o
	}
	return r
}

func (x *Exec) makeIface1(st *State, v Val, from, to types.Type) Val {
	if v.K == KIface {
		v.Typ = to
		return v
	}
	if v.K == KNil {
		return x.zeroVal(to)
	}
	id := x.reg.typeID(from)
	var payload Term
	switch v.K {
	case KPtr, KClosure:
		payload = x.ptrTerm(v)
	case KScalar:
		if v.T.Sort == sInt {
			payload = v.T
		} else {
			payload = x.uf("box!"+typeName(from), sInt, v.T)
		}
	case KSlice:
		payload = x.fresh("box", sInt)
		bv := v
		bv.Typ = from
		x.boxed[payload.S] = bv
	default:
		payload = x.fresh("box", sInt)
	}
	return Val{K: KIface, Typ: to, Fs: []Val{scalar(intLit(int64(id)), nil), scalar(payload, nil)}}
}

func (x *Exec) convert(st *State, v Val, from, to types.Type) Val {
	fs, ts := scalarSort(from), scalarSort(to)
	if v.K == KScalar && fs != "" && ts != "" {
		switch {
		case fs == ts:
			return scalar(v.T, to)
		case fs == sInt && ts == sReal:
			return scalar(app(sReal, "to_real", v.T), to)
		case fs == sReal && ts == sInt:
			// truncation toward zero
			f := app(sInt, "to_int", v.T)
			neg := app(sInt, "-", app(sInt, "to_int", app(sReal, "-", v.T)))
			return scalar(x.name("trunc", tIte(app(sBool, ">=", v.T, Term{"0.0", sReal}), f, neg)), to)
		case fs == sInt && ts == sStr:
			return scalar(x.uf("runestr", sStr, v.T), to)
		}
	}
	// string <-> []byte / []rune
	if fs == sStr {
		if _, ok := under(to).(*types.Slice); ok {
			r := x.freshVal(st, to, "bytes")
			x.assume(tEq(r.Fs[2].T, app(sInt, "str.len", v.T)))
			x.assume(tEq(x.uf("bytes2str", sStr, r.Fs[0].T, r.Fs[1].T, r.Fs[2].T), v.T))
			return r
		}
	}
	if ts == sStr && v.K == KSlice {
		return scalar(x.uf("bytes2str", sStr, v.Fs[0].T, v.Fs[1].T, v.Fs[2].T), to)
	}
	if v.K == KPtr || v.K == KNil {
		return v
	}
	x.unsupported("conversion " + typeName(from) + " -> " + typeName(to))
	return x.freshVal(st, to, "conv")
}

func (x *Exec) typeAssert(st *State, fr *Frame, i *ssa.TypeAssert) Val {
	v := x.val(st, fr, i.X)
	if v.K != KIface {
		x.unsupported("type assertion on non-interface value")
		return x.freshVal(st, i.Type(), "ta")
	}
	tag, payload := v.Fs[0].T, v.Fs[1].T
	var ok Term
	var res Val
	if it, isIface := under(i.AssertedType).(*types.Interface); isIface {
		ok = x.implementsTerm(tag, it)
		res = Val{K: KIface, Typ: i.AssertedType, Fs: v.Fs}
	} else {
		ok = tEq(tag, intLit(int64(x.reg.typeID(i.AssertedType))))
		res = x.valFromLeaves(i.AssertedType, func(l leaf) Term {
			if l.sort == sInt {
				return payload
			}
			return x.uf("unbox!"+typeName(i.AssertedType), l.sort, payload)
		})
		if ls := leavesOf(i.AssertedType); len(ls) != 1 {
			res = x.freshVal(st, i.AssertedType, "unboxed")
		}
	}
	if i.CommaOk {
		return Val{K: KTuple, Typ: i.Type(), Fs: []Val{res, scalar(ok, nil)}}
	}
	// a failing assertion panics: the continuing path has ok
	x.assume(ok)
	return res
}

// implementsTerm: closed-world disjunction over the concrete types known to the program.
func (x *Exec) implementsTerm(tag Term, it *types.Interface) Term {
	if it.NumMethods() == 0 {
		return tNot(tEq(tag, tZero))
	}
	var ds []Term
	for _, t := range x.P.concreteTypes() {
		if types.Implements(t, it) {
			ds = append(ds, tEq(tag, intLit(int64(x.reg.typeID(t)))))
		}
	}
	x.trust("A9 closed world: dynamic types are the named types of the loaded program")
	return tOr(ds...)
}

func (x *Exec) sliceOp(st *State, fr *Frame, i *ssa.Slice) Val {
	xv := x.val(st, fr, i.X)
	var lo, hi, mx *Term
	get := func(v ssa.Value) *Term {
		if v == nil {
			return nil
		}
		t := x.val(st, fr, v).T
		return &t
	}
	lo, hi, mx = get(i.Low), get(i.High), get(i.Max)
	return x.sliceVal(st, fr, xv, i.X.Type(), i.Type(), lo, hi, mx, i)
}

func (x *Exec) sliceVal(st *State, fr *Frame, xv Val, xt, rt types.Type, lo, hi, mx *Term, at ssa.Instruction) Val {
	l := tZero
	if lo != nil {
		l = *lo
	}
	switch u := under(xt).(type) {
	case *types.Slice:
		if xv.K == KNil {
			xv = x.zeroVal(xt)
		}
		if xv.K != KSlice {
			x.unsupported("slicing non-slice value")
			return x.freshVal(st, rt, "slice")
		}
		arr, off, ln, cp := xv.Fs[0].T, xv.Fs[1].T, xv.Fs[2].T, xv.Fs[3].T
		h := ln
		if hi != nil {
			h = *hi
		}
		m := cp
		if mx != nil {
			m = *mx
		}
		if x.fc != nil && x.fc.Safety && x.pure == 0 && at != nil {
			goal := tAnd(app(sBool, "<=", tZero, l), app(sBool, "<=", l, h), app(sBool, "<=", h, m), app(sBool, "<=", m, cp))
			x.prove(st, x.fname+"/safety:slice", "safety", "slice bounds in range", goal, x.P.pos(at.Pos()))
		}
		return Val{K: KSlice, Typ: rt, Fs: []Val{scalar(arr, nil), scalar(x.add(off, l), nil), scalar(x.sub(h, l), nil), scalar(x.sub(m, l), nil)}}
	case *types.Basic: // string
		h := app(sInt, "str.len", xv.T)
		if hi != nil {
			h = *hi
		}
		return scalar(app(sStr, "str.substr", xv.T, l, x.sub(h, l)), rt)
	case *types.Pointer:
		at2, _ := under(u.Elem()).(*types.Array)
		if xv.K != KPtr || xv.P.Kind != PObj || at2 == nil {
			x.unsupported("slicing through " + xv.String())
			return x.freshVal(st, rt, "slice")
		}
		n := intLit(at2.Len())
		h := n
		if hi != nil {
			h = *hi
		}
		m := n
		if mx != nil {
			m = *mx
		}
		return Val{K: KSlice, Typ: rt, Fs: []Val{scalar(xv.P.Base, nil), scalar(l, nil), scalar(x.sub(h, l), nil), scalar(x.sub(m, l), nil)}}
	}
	x.unsupported("slice of " + typeName(xt))
	return x.freshVal(st, rt, "slice")
}

func (x *Exec) sub(a, b Term) Term {
	if b.S == "0" {
		return a
	}
	if a.S == b.S {
		return tZero
	}
	return app(sInt, "-", a, b)
}

// ---- maps ------------------------------------------------------------------

func mapHeapKey(mt *types.Map, suffix string) string {
	return "M|" + typeName(mt.Key()) + "|" + typeName(mt.Elem()) + "|" + suffix
}

func (x *Exec) keyTerm(v Val) Term {
	switch v.K {
	case KScalar:
		return v.T
	case KPtr, KClosure:
		return x.ptrTerm(v)
	}
	x.unsupported("map key " + v.String())
	return x.fresh("key", sInt)
}

func (x *Exec) mapGet(st *State, hv *HeapView, m Term, mt *types.Map, key Term) (Val, Term) {
	ks := scalarSort(mt.Key())
	if ks == "" {
		x.unsupported("map with key type " + typeName(mt.Key()))
		return x.freshVal(st, mt.Elem(), "mapval"), x.fresh("present", sBool)
	}
	pk := mapHeapKey(mt, "#present")
	ph := x.heapTerm(hv, st, pk, arrSort(sInt, arrSort(ks, sBool)))
	present := tSelect(tSelect(ph.T, m), key)
	if _, isStruct := structOf(mt.Elem()); isStruct || leavesOf(mt.Elem()) == nil {
		return x.freshVal(st, mt.Elem(), "mapval"), present
	}
	var epoch Term
	v := x.valFromLeaves(mt.Elem(), func(l leaf) Term {
		k := mapHeapKey(mt, l.suffix)
		h := x.heapTerm(hv, st, k, arrSort(sInt, arrSort(ks, l.sort)))
		epoch = h.Epoch
		return tSelect(tSelect(h.T, m), key)
	})
	if !st.noHeap {
		x.typeFacts(st, v, mt.Elem(), epoch)
	}
	return v, present
}

func (x *Exec) lookup(st *State, fr *Frame, i *ssa.Lookup) Val {
	xv := x.val(st, fr, i.X)
	if mt, ok := under(i.X.Type()).(*types.Map); ok {
		key := x.keyTerm(x.val(st, fr, i.Index))
		v, present := x.mapGet(st, nil, xv.T, mt, key)
		// absent keys read as the zero value
		zv := x.zeroVal(mt.Elem())
		res := x.iteVal(present, v, zv, mt.Elem())
		if i.CommaOk {
			return Val{K: KTuple, Typ: i.Type(), Fs: []Val{res, scalar(present, nil)}}
		}
		return res
	}
	// string index
	r := x.fresh("byte", sInt)
	x.assume(tAnd(app(sBool, "<=", tZero, r), app(sBool, "<", r, intLit(256))))
	return scalar(r, i.Type())
}

func (x *Exec) iteVal(c Term, a, b Val, t types.Type) Val {
	if c.S == "true" {
		return a
	}
	if c.S == "false" {
		return b
	}
	if _, isStruct := structOf(t); isStruct || leavesOf(t) == nil {
		return a
	}
	at, bt := x.leafTerms(a, t), x.leafTerms(b, t)
	k := 0
	return x.valFromLeaves(t, func(l leaf) Term {
		r := tIte(c, at[k], coerce(bt[k], at[k].Sort))
		k++
		return r
	})
}

func (x *Exec) mapUpdate(st *State, fr *Frame, i *ssa.MapUpdate) {
	mt := under(i.Map.Type()).(*types.Map)
	ks := scalarSort(mt.Key())
	if ks == "" {
		x.unsupported("map with key type " + typeName(mt.Key()))
		return
	}
	m := x.val(st, fr, i.Map).T
	key := x.keyTerm(x.val(st, fr, i.Key))
	x.mapStore(st, mt, m, key, x.val(st, fr, i.Value), true)
}

func (x *Exec) mapStore(st *State, mt *types.Map, m, key Term, v Val, present bool) {
	ks := scalarSort(mt.Key())
	pk := mapHeapKey(mt, "#present")
	ph := x.heapTerm(nil, st, pk, arrSort(sInt, arrSort(ks, sBool)))
	x.heapSet(st, pk, tStore(ph.T, m, tStore(tSelect(ph.T, m), key, boolLit(present))))
	if !present {
		return
	}
	if _, isStruct := structOf(mt.Elem()); isStruct || leavesOf(mt.Elem()) == nil {
		return
	}
	terms := x.leafTerms(x.convertTo(st, v, mt.Elem()), mt.Elem())
	for k, l := range leavesOf(mt.Elem()) {
		hk := mapHeapKey(mt, l.suffix)
		h := x.heapTerm(nil, st, hk, arrSort(sInt, arrSort(ks, l.sort)))
		x.heapSet(st, hk, tStore(h.T, m, tStore(tSelect(h.T, m), key, coerce(terms[k], l.sort))))
	}
}

func (x *Exec) next(st *State, fr *Frame, i *ssa.Next) Val {
	tt := i.Type().(*types.Tuple)
	ok := x.fresh("next", sBool)
	res := Val{K: KTuple, Typ: i.Type(), Fs: []Val{scalar(ok, nil)}}
	if i.IsString {
		res.Fs = append(res.Fs, x.freshVal(st, tt.At(1).Type(), "idx"), x.freshVal(st, tt.At(2).Type(), "rune"))
		return res
	}
	rng, _ := i.Iter.(*ssa.Range)
	if rng == nil {
		res.Fs = append(res.Fs, x.freshVal(st, tt.At(1).Type(), "k"), x.freshVal(st, tt.At(2).Type(), "v"))
		return res
	}
	mt := under(rng.X.Type()).(*types.Map)
	m := x.val(st, fr, rng.X).T
	kv := x.freshVal(st, mt.Key(), "rangekey")
	if scalarSort(mt.Key()) == "" {
		res.Fs = append(res.Fs, kv, x.freshVal(st, mt.Elem(), "rangeval"))
		return res
	}
	v, present := x.mapGet(st, nil, m, mt, x.keyTerm(kv))
	x.assume(tImplies(ok, present))
	res.Fs = append(res.Fs, kv, v)
	return res
}

// ---------------------------------------------------------------------------
// Return

func (x *Exec) doReturn(st *State, fr *Frame, r *ssa.Return) (stop bool) {
	var rets []Val
	for _, v := range r.Results {
		rets = append(rets, x.val(st, fr, v))
	}
	if len(st.frames) > 1 {
		// inlined callee returns to its caller
		st.frames = st.frames[:len(st.frames)-1]
		caller := st.top()
		var rv Val
		switch len(rets) {
		case 0:
			rv = Val{K: KUnit}
		case 1:
			rv = rets[0]
		default:
			rv = Val{K: KTuple, Fs: rets}
		}
		if fr.retTo != nil {
			caller.vals[fr.retTo] = rv
		}
		if fr.eventIdx >= 0 && fr.eventIdx < len(st.events) {
			st.events[fr.eventIdx].Rets = rets
		}
		if fr.afterSite != nil {
			x.callSite(st, caller, fr.afterKind, fr.afterCallee, fr.afterArgs, rets, "after", fr.afterSite)
		}
		if fr.cbEffect != nil {
			if x.fc != nil && len(x.fc.OnCbReturn) > 0 && len(st.frames) >= 1 {
				// the callback frame is put back for the evaluation: its variables come first
				st.frames = append(st.frames, fr)
				env := x.envFor(st, st.frames[0])
				env.old = x.entry
				x.bindResults(env, fr.fn.Signature, rets)
				for k, c := range x.fc.OnCbReturn {
					x.proveClause(st, env, c, fmt.Sprintf("%s/on-callback-return:%s", x.fname, labelOr(c.Label, k)), "on-callback-return", "return of "+fr.fn.Name()+" (callback of "+fr.cbCallee+")")
				}
				st.frames = st.frames[:len(st.frames)-1]
			}
			// end of the callback invocation: further invocations may follow, then the callee returns
			x.havocEffect(st, caller, fr.cbEffect)
			x.havocCaptured(st, fr.cbClosure)
			var outs []Val
			for i, rt := range fr.cbResTypes {
				outs = append(outs, x.freshVal(st, rt, fmt.Sprintf("ret!%s!%d", shortName(fr.cbCallee), i)))
			}
			if fr.cbEnsure != nil {
				fr.cbEnsure(st, outs)
			}
			x.setRet(st, caller, fr.cbRetTo, outs, fr.cbEvent)
		}
		return false
	}
	x.returns++
	x.atReturn(st, fr, rets)
	x.endPath(st)
	return true
}

func (x *Exec) atReturn(st *State, fr *Frame, rets []Val) {
	fc := x.fc
	env := x.envFor(st, fr)
	env.entryParams = true
	env.old = x.entry
	x.bindResults(env, fr.fn.Signature, rets)
	where := "return of " + x.fname
	x.sess.Push()
	for k, e := range fc.Ensures {
		cname := fmt.Sprintf("%s/ensures:%s", x.fname, labelOr(e.Label, k))
		x.proveClause(st, env, e, cname, "ensures", where)
		// clauses are proved in order; a proved clause may be used by the following ones
		// (outside the region of a known finding only, so that the finding masks nothing else)
		if e.Expr != nil {
			x.pure++
			if t, ok := env.evalBool(e.Expr); ok {
				for _, kf := range x.known {
					if kf.covers(cname) && kf.Status == "known" {
						if r, ok := x.evalRegion(st, kf); ok {
							t = tImplies(tNot(r), t)
						}
					}
				}
				x.sess.Assert(t)
			}
			x.pure--
		}
	}
	x.popScope()
	env2 := x.envFor(st, fr)
	env2.old = x.entry
	x.bindResults(env2, fr.fn.Signature, rets)
	for k, e := range fc.OnReturn {
		x.proveClause(st, env2, e, fmt.Sprintf("%s/on-return:%s", x.fname, labelOr(e.Label, k)), "on-return", where)
	}
	if fc.HasModifies && !fc.ModAll {
		if fc.FrameAssumed {
			x.trust("frame of " + x.fname + " (its modifies clause) is assumed, not checked against the body")
		} else {
			x.frameCheck(st, fr, env)
		}
	}
}

func (x *Exec) bindResults(env *Env, sig *types.Signature, rets []Val) {
	for i, r := range rets {
		env.names[fmt.Sprintf("r%d", i)] = r
		if i < sig.Results().Len() {
			if n := sig.Results().At(i).Name(); n != "" && n != "_" {
				env.names[n] = r
			}
		}
	}
	if len(rets) == 1 {
		env.names["result"] = rets[0]
	}
}

// frameCheck: every heap key changed since entry is unchanged outside the modifies locations,
// for objects that existed at entry.
func (x *Exec) frameCheck(st *State, fr *Frame, env *Env) {
	if st.havocAllSeen {
		x.prove(st, x.fname+"/frame", "frame", "modifies", tFalse, "an unknown callee or loop forgot the whole heap; give it a contract")
		return
	}
	// locations allowed to change, grouped by key
	allowed := map[string][][]Term{}
	wholeKey := map[string]bool{}
	envOld := *env
	envOld.cur = x.entry
	for _, m := range x.fc.Modifies {
		x.pure++
		locs, ok := envOld.evalModifies(m)
		x.pure--
		if !ok {
			x.unsupported("modifies clause: " + env.err)
			return
		}
		for _, l := range locs {
			if l.idx == nil {
				wholeKey[l.key] = true
			} else {
				allowed[l.key] = append(allowed[l.key], l.idx)
			}
		}
	}
	for _, k := range sortedKeys(st.heap) {
		cur := st.heap[k]
		if wholeKey[k] {
			continue
		}
		ent := x.heapTerm(x.entry, nil, k, cur.T.Sort)
		if ent.T.S == cur.T.S {
			continue
		}
		// exists a, (i): a < W0 && not allowed && cur[a](i) != ent[a](i)
		a := Term{"fr!a", sInt}
		vars := "((fr!a Int))"
		idx := []Term{a}
		two := k[0] == 'E' || k[0] == 'M'
		if two {
			isort := arrIndex(arrElem(cur.T.Sort))
			idx = append(idx, Term{"fr!i", isort})
			vars = "((fr!a Int) (fr!i " + isort + "))"
		}
		var notAllowed []Term
		for _, al := range allowed[k] {
			var eqs []Term
			for j := range al {
				if j < len(idx) {
					eqs = append(eqs, tEq(idx[j], al[j]))
				}
			}
			notAllowed = append(notAllowed, tNot(tAnd(eqs...)))
		}
		body := tImplies(tAnd(append([]Term{app(sBool, "<", a, x.entryW)}, notAllowed...)...), tEq(sel(cur.T, idx), sel(ent.T, idx)))
		goal := Term{"(forall " + vars + " " + body.S + ")", sBool}
		x.prove(st, x.fname+"/frame:"+k, "frame", "modifies", goal, "return of "+x.fname)
	}
}

// ---------------------------------------------------------------------------

func (P *Program) pos(p token.Pos) string {
	if !p.IsValid() {
		return "?"
	}
	pp := P.prog.Fset.Position(p)
	rel, err := filepath.Rel(P.repo, pp.Filename)
	if err != nil {
		rel = pp.Filename
	}
	return fmt.Sprintf("%s:%d", rel, pp.Line)
}

func debugf(format string, a ...any) {
	if os.Getenv("GOVC_DEBUG") != "" {
		fmt.Fprintf(os.Stderr, format+"\n", a...)
	}
}

// idx: element index off+i, wrapped in an uninterpreted function (axiomatised in the prelude)
// so that quantifier patterns over slice elements match modulo arithmetic.
func (x *Exec) idx(off, i Term) Term {
	if off.S == "0" {
		return i
	}
	// quantifiers over slice positions bind i := (- p off): the element index is p itself
	if strings.HasPrefix(i.S, "(- ") && strings.HasSuffix(i.S, " "+off.S+")") {
		p := i.S[3 : len(i.S)-len(off.S)-2]
		if sexpEnd(p, 0) == len(p) {
			return Term{p, sInt}
		}
	}
	return app(sInt, "+", off, i)
}

// addressEscapes: the address of the Alloc is used other than by loads, stores and closure bindings
// (passed to a call, stored somewhere, converted): then callees may reach the cell at any time.
func addressEscapes(a *ssa.Alloc) bool {
	refs := a.Referrers()
	if refs == nil {
		return true
	}
	for _, r := range *refs {
		switch u := r.(type) {
		case *ssa.UnOp:
		case *ssa.Store:
			if u.Val == ssa.Value(a) {
				return true
			}
		case *ssa.MakeClosure, *ssa.DebugRef:
		default:
			return true
		}
	}
	return false
}

// storeName: the source name of the variable or field a Store writes ("" for temporaries).
func storeName(addr ssa.Value) string {
	switch a := addr.(type) {
	case *ssa.Alloc:
		return a.Comment
	case *ssa.FreeVar:
		return a.Name()
	case *ssa.FieldAddr:
		if stt, ok := under(deref(a.X.Type())).(*types.Struct); ok {
			return stt.Field(a.Field).Name()
		}
	case *ssa.Global:
		return a.Name()
	}
	return ""
}

// wantsStore: some clause of the contract mentions a store to this name (stores are only recorded
// as events when asked for, they are far too frequent otherwise).
func (fc *FuncContract) wantsStore(name string) bool {
	for _, n := range fc.StoreNames {
		if n == name {
			return true
		}
	}
	return false
}

func (x *Exec) waterBefore(w Term) Term { return w }

// addMaybeEvents: the call sites in the body of the loop entered at head, as calls that earlier
// iterations may have made (callee names as events carry them; calls made inside inlined helpers and
// callbacks are not listed).
func (x *Exec) addMaybeEvents(st *State, head *ssa.BasicBlock, body map[*ssa.BasicBlock]bool) {
	floor := len(st.events)
	add := func(kind string, cc *ssa.CallCommon) {
		var callee, alias string
		switch {
		case cc.IsInvoke():
			callee = ifaceMethodName(cc)
		case cc.StaticCallee() != nil:
			callee = normName(cc.StaticCallee().String())
		default:
			if _, ok := cc.Value.(*ssa.Builtin); ok {
				return
			}
			if mc, ok := cc.Value.(*ssa.MakeClosure); ok {
				callee = normName(mc.Fn.String())
			} else {
				callee = "dyn:" + dynName(cc.Value)
			}
		}
		st.maybe = append(st.maybe, Event{Kind: kind, Callee: callee, Alias: alias, Head: head, Floor: floor, CC: cc})
	}
	for b := range body {
		for _, in := range b.Instrs {
			switch i := in.(type) {
			case *ssa.Call:
				add("call", &i.Call)
			case *ssa.Go:
				add("go", &i.Call)
			case *ssa.Defer:
				add("defer", &i.Call)
			}
		}
	}
}
