package main

import (
	"encoding/json"
	"fmt"
	"os"
	"path/filepath"
	"sort"
	"strings"
)

type Result struct {
	Lines        []string
	Exit         int
	Obligations  int
	Discharged   int
	Instances    int
	KnownFailing int
	Violations   int
	Replayed     int
	Undecided    []string
	Vacuity      []string
	Reports      []*FuncReport
	PerOblig     []map[string]any
	KnownOut     []map[string]any
	Trusted      []string
	LoadMs       int64
	WallS        float64
	Tier         string
	Seed         int
	Cmd          string
	SolverMs     int64
	Samples      []any
}

func obligStatus(o *Oblig) (status string, worst *ObligInstance) {
	status = "discharged"
	for _, in := range o.Instances {
		switch in.Result {
		case "discharged":
		case "failed":
			if status != "failed" {
				status = "failed"
				worst = in
			}
		case "skipped":
			// only produced when the obligation already has counterexamples on other paths
		default:
			if status == "discharged" {
				status = "unknown"
				worst = in
			}
		}
	}
	return
}

func aggregate(prop string, cfg PropConfig, reports []*FuncReport, known []KnownFinding, undecided []string, outDir, verif string) *Result {
	res := &Result{Undecided: undecided}
	trusted := map[string]bool{}
	seenOblig := map[string]bool{}
	for _, rep := range reports {
		if rep == nil {
			continue
		}
		res.Reports = append(res.Reports, rep)
		if os.Getenv("GOVC_VERBOSE") != "" {
			fmt.Printf("func %-50s paths=%d returns=%d queries=%d solver=%dms wall=%dms\n", rep.Func, rep.Paths, rep.Returns, rep.Queries, rep.SolverMs, rep.WallMs)
			for _, u := range rep.Unreached {
				fmt.Printf("  UNREACHED %s: %s\n", rep.Func, u)
			}
		}
		res.SolverMs += rep.SolverMs
		for _, t := range rep.trusted {
			trusted[t] = true
		}
		if rep.Aborted != "" {
			res.Undecided = append(res.Undecided, rep.Func+": "+rep.Aborted)
		}
		for _, u := range rep.Unreached {
			res.Undecided = append(res.Undecided, rep.Func+": no explored path enters "+u+" (the model may hide behaviour; declare it with 'dead PATTERN' if it is defensive code)")
		}
		for _, u := range rep.Unsup {
			res.Undecided = append(res.Undecided, rep.Func+": unsupported: "+u)
		}
		for _, e := range rep.SolverErrs {
			res.Undecided = append(res.Undecided, rep.Func+": solver: "+e)
		}
		res.Vacuity = append(res.Vacuity, rep.Vacuity...)
		for _, o := range rep.obligs {
			if !cfg.selects(o) {
				continue
			}
			seenOblig[o.Name] = true
			status, worst := obligStatus(o)
			var solvers []string
			var ms int64
			sv := map[string]bool{}
			for _, in := range o.Instances {
				ms += in.Ms
				res.SolverMs += 0
				if !sv[in.Solver] {
					sv[in.Solver] = true
					solvers = append(solvers, in.Solver)
				}
			}
			sort.Strings(solvers)
			entry := map[string]any{"name": o.Name, "kind": o.Kind, "instances": len(o.Instances), "status": status, "solvers": solvers, "ms": ms}
			if o.Expect == "fail" {
				// known-region half of a known finding
				kf := findKnown(known, o.Name)
				what := ""
				if kf != nil {
					what = kf.What
				}
				if status == "discharged" {
					res.Lines = append(res.Lines, fmt.Sprintf("NOTE: property=%s known finding no longer reproduces (stale entry): %s", prop, strings.TrimSuffix(o.Name, "@known-region")))
					entry["status"] = "stale-known-finding"
				} else {
					res.KnownFailing++
					line := fmt.Sprintf("KNOWN-FINDING: property=%s %s", prop, what)
					dup := false
					for _, l := range res.Lines {
						if l == line {
							dup = true
						}
					}
					if !dup {
						res.Lines = append(res.Lines, line)
					}
					entry["status"] = "known-failing"
				}
				res.KnownOut = append(res.KnownOut, entry)
				continue
			}
			if os.Getenv("GOVC_VERBOSE") != "" {
				for _, in := range o.Instances {
					extra := ""
					for _, a := range in.Answers {
						extra += fmt.Sprintf(" %s=%s/%dms", a.Solver, a.Result, a.Ms)
					}
					fmt.Printf("  %-70s %-10s %-22s %6dms%s\n", o.Name, in.Result, in.Solver, in.Ms, extra)
					if in.Result != "discharged" {
						fmt.Printf("      path: %s\n      goal: %s\n", strings.Join(in.Trace, " ; "), in.Goal)
					}
				}
			}
			res.Obligations++
			res.Instances += len(o.Instances)
			res.PerOblig = append(res.PerOblig, entry)
			if status == "discharged" {
				res.Discharged++
				if len(res.Samples) < 3 && o.Kind != "precondition" {
					res.Samples = append(res.Samples, map[string]any{"obligation": o.Name, "kind": o.Kind, "clause": o.Clause, "where": o.Instances[0].Where, "goal": o.Instances[0].Goal, "solver": o.Instances[0].Solver})
				}
				continue
			}
			res.Violations++
			path, doc := writeReplay(prop, o, worst, status, outDir)
			suffix := " no-failing-input-found"
			// prefer an instance that has a model
			cand := worst
			for _, in := range o.Instances {
				if in.Result == "failed" && in.File != "" {
					cand = in
					break
				}
			}
			if os.Getenv("GOVC_NO_REPLAY") == "" && tryReplay(prop, o, cand, path, verif, rep.replay, doc) {
				suffix = ""
				res.Replayed++
			}
			b, _ := json.MarshalIndent(doc, "", " ")
			writeFile(path, string(b))
			res.Lines = append(res.Lines, fmt.Sprintf("VIOLATION property=%s replay=%s%s", prop, path, suffix))
			res.Lines = append(res.Lines, fmt.Sprintf("  obligation %s (%s) %s at %s", o.Name, o.Kind, status, worst.Where))
		}
	}
	for _, want := range cfg.Expect {
		if !seenOblig[want] && !seenOblig[want+"@elsewhere"] {
			res.Undecided = append(res.Undecided, "expected obligation was not generated: "+want)
		}
	}
	for t := range trusted {
		res.Trusted = append(res.Trusted, t)
	}
	sort.Strings(res.Trusted)
	if res.Trusted == nil {
		res.Trusted = []string{}
	}
	for _, v := range res.Vacuity {
		res.Lines = append(res.Lines, fmt.Sprintf("BROKEN property=%s vacuity: %s", prop, v))
	}
	switch {
	case res.Violations > 0:
		res.Exit = 1
	case len(res.Vacuity) > 0:
		res.Exit = 3
	case len(res.Undecided) > 0:
		res.Exit = 2
	case res.Obligations == 0:
		res.Lines = append(res.Lines, fmt.Sprintf("BROKEN property=%s no obligations were generated", prop))
		res.Exit = 3
	}
	if len(res.Undecided) > 0 {
		seen := map[string]bool{}
		for _, u := range res.Undecided {
			if seen[u] {
				continue
			}
			seen[u] = true
			if len(u) > 400 && !strings.Contains(u, "engine panic") {
				u = u[:400]
			}
			res.Lines = append(res.Lines, fmt.Sprintf("UNDECIDED property=%s reason=%s", prop, u))
		}
	}
	return res
}

func findKnown(known []KnownFinding, oname string) *KnownFinding {
	base := strings.TrimSuffix(strings.TrimSuffix(oname, "@known-region"), "@elsewhere")
	for i := range known {
		if known[i].covers(base) {
			return &known[i]
		}
	}
	return nil
}

func writeReplay(prop string, o *Oblig, in *ObligInstance, status, outDir string) (string, map[string]any) {
	path := filepath.Join(outDir, "replay", sanitize(o.Name)+".json")
	doc := map[string]any{
		"property":   prop,
		"obligation": o.Name,
		"kind":       o.Kind,
		"function":   o.Func,
		"clause":     o.Clause,
		"status":     status,
		"where":      in.Where,
		"goal":       in.Goal,
		"path_events": in.Trace,
		"smt_file":   in.File,
		"solver":     in.Solver,
		"answers":    in.Answers,
		"model":      in.Model,
		"replayed":   false,
		"note":       "the obligation is generated from the current source of the function; it was discharged on the unchanged tree",
	}
	b, _ := json.MarshalIndent(doc, "", " ")
	writeFile(path, string(b))
	return path, doc
}

func writeEvidence(verif, prop string, cfg PropConfig, res *Result, P *Program) error {
	var funcs []map[string]any
	for _, r := range res.Reports {
		funcs = append(funcs, map[string]any{"func": r.Func, "file": r.File, "clauses": r.Clauses, "loops": r.Loops, "paths": r.Paths,
			"returns": r.Returns, "solver_queries": r.Queries, "solver_ms": r.SolverMs, "wall_ms": r.WallMs})
	}
	backends := map[string]int{}
	for _, r := range res.Reports {
		for _, o := range r.obligs {
			for _, in := range o.Instances {
				if in.Result == "discharged" {
					backends[in.Solver]++
				}
			}
		}
	}
	assumptions := []string{
		"A1 sequential semantics: no interleaving inside a verified function; locks are no-ops; goroutines started by a function are not executed",
		"A2 integers are mathematical (64-bit overflow not modelled in the quick tier); int is 64 bit",
		"A4 trusted contracts for library functions and for callees listed in trusted_base; default havoc for callees without contract",
		"A5 logging has no effect on verified state",
		"A6 partial correctness except where a decreases clause is proved",
		"A7 the contracts themselves (taken from the property text) are the specification",
		"A9 closed world for dynamic types (named types of the loaded program)",
	}
	assumptions = append(assumptions, cfg.Assumptions...)
	if cfg.Residual != "" {
		assumptions = append(assumptions, "residual (not decided): "+cfg.Residual)
	}
	cov := map[string]any{
		"obligations":              res.Obligations,
		"discharged":               res.Discharged,
		"obligation_instances":     res.Instances,
		"checker_cmd":              res.Cmd,
		"trusted_base":             res.Trusted,
		"functions_under_contract": funcs,
		"per_obligation":           res.PerOblig,
		"known_failing":            res.KnownOut,
		"discharged_by_backend":    backends,
		"solver_time_s":            float64(res.SolverMs) / 1000,
		"load_s":                   float64(res.LoadMs) / 1000,
		"samples":                  res.Samples,
		"undecided":                res.Undecided,
"block_coverage":           blockCoverage(res.Reports),
				"vacuity_failures":         res.Vacuity,
		"contract_files":           relFiles(P),
		"bounded":                  cfg.Bounded,
		"rule":                     "one named obligation per contract clause and program point class; an obligation counts as discharged only if every path instance is unsat",
	}
	if res.Samples == nil {
		cov["samples"] = []any{}
	}
	ev := map[string]any{
		"property_id": prop,
		"tier":        res.Tier,
		"seed":        res.Seed,
		"level":       "proof",
		"coverage":    cov,
		"assumptions": assumptions,
		"wall_s":      res.WallS,
		"violations":  res.Violations,
	}
	b, err := json.MarshalIndent(ev, "", " ")
	if err != nil {
		return err
	}
	return writeFile(filepath.Join(verif, "evidence", prop+".json"), string(b)+"\n")
}

func relFiles(P *Program) []string {
	var out []string
	if P == nil || P.C == nil {
		return out
	}
	for _, f := range P.C.Files {
		out = append(out, f)
	}
	return out
}

func cmdReplay(argv []string) int {
	if len(argv) < 1 {
		fmt.Fprintln(os.Stderr, "usage: govc replay <file>")
		return 3
	}
	b, err := os.ReadFile(argv[0])
	if err != nil {
		fmt.Fprintln(os.Stderr, err)
		return 3
	}
	var doc map[string]any
	if err := json.Unmarshal(b, &doc); err != nil {
		fmt.Fprintln(os.Stderr, err)
		return 3
	}
	fmt.Printf("obligation: %v\nfunction:   %v\nclause:     %v\nwhere:      %v\nstatus:     %v\nsolver:     %v\nsmt file:   %v\nreplayed:   %v\n", doc["obligation"], doc["function"], doc["clause"], doc["where"], doc["status"], doc["solver"], doc["smt_file"], doc["replayed"])
	if m, ok := doc["model"].(string); ok && m != "" {
		if len(m) > 4000 {
			m = m[:4000] + "\n..."
		}
		fmt.Println("model:\n" + m)
	}
	if r, ok := doc["replay_output"].(string); ok && r != "" {
		fmt.Println("replay output:\n" + r)
	}
	return 0
}

// selects: does the obligation belong to the property (see PropConfig.Labels)?
func (cfg PropConfig) selects(o *Oblig) bool {
	labels, ok := cfg.Labels[o.Func]
	if !ok {
		return true
	}
	switch o.Kind {
	case "ensures", "on-return", "call-site", "loop-backedge":
	default:
		return true
	}
	name := strings.TrimSuffix(strings.TrimSuffix(o.Name, "@known-region"), "@elsewhere")
	i := strings.LastIndex(name, ":")
	if i < 0 {
		return true
	}
	for _, l := range labels {
		if l == name[i+1:] {
			return true
		}
	}
	return false
}

// blockCoverage: the cover check behind the contracts - every basic block of every function under
// contract has to be entered by some explored path (or be declared dead in its contract).
func blockCoverage(reps []*FuncReport) map[string]any {
	total, in, dead := 0, 0, 0
	var missing []string
	for _, r := range reps {
		total += r.Blocks
		in += r.BlocksIn
		dead += r.BlocksDead
		for _, u := range r.Unreached {
			missing = append(missing, r.Func+": "+u)
		}
	}
	if missing == nil {
		missing = []string{}
	}
	return map[string]any{"blocks": total, "entered": in, "declared_dead": dead, "never_entered": missing,
		"rule": "a block no explored path enters makes the check undecided unless the contract declares it dead"}
}
