package main

// Symbolic values, heap model and state.

import (
	"fmt"
	"go/types"
	"sort"
	"strings"

	"golang.org/x/tools/go/ssa"
)

type Kind int

const (
	KScalar Kind = iota
	KSlice       // Fs = arr, off, len, cap
	KIface       // Fs = tag, val
	KTuple
	KStruct
	KPtr
	KClosure
	KNil
	KUnit
)

type PKind int

const (
	PObj   PKind = iota // pointer to an object of type Elem at Base
	PField              // pointer to a non-struct field Field (index) of struct type Elem at Base
	PElem               // pointer to element Idx of backing array Arr (non-struct element type Elem)
	PCell               // pointer to a local cell (non-escaping Alloc), Path selects a sub-value
)

type Ptr struct {
	Kind  PKind
	Base  Term
	Elem  types.Type // pointee type for PObj/PElem; struct type for PField
	Field int
	Arr   Term
	Idx   Term
	Cell  int // cell id
	Path  []int
}

type Val struct {
	K     Kind
	T     Term
	Typ   types.Type
	Fs    []Val
	P     *Ptr
	Fn    *ssa.Function
	Binds []Val
}

func scalar(t Term, typ types.Type) Val { return Val{K: KScalar, T: t, Typ: typ} }

type heapVer struct {
	T     Term // array term (named)
	Epoch Term // watermark at the last modification
}

type Event struct {
	Kind   string // call go defer
	Callee string // normalized name
	Alias  string // interface method name when the call was an invoke resolved to a concrete method
	Args   []Val
	Rets   []Val
	Seq    int
	// maybe-events only: a call site inside a loop body whose iterations are summarized at the loop head
	Head  *ssa.BasicBlock
	Floor int
	CC    *ssa.CallCommon
}

type Frame struct {
	fn       *ssa.Function
	contract *FuncContract
	vals     map[ssa.Value]Val
	cells    map[*ssa.Alloc]int // alloc -> cell id (latest instance)
	block    *ssa.BasicBlock
	prev     *ssa.BasicBlock
	pc       int
	defers   []deferred
	running  []deferred // defers being run by the current RunDefers
	inDefers bool
	retTo    ssa.Value // call instruction in the caller to bind the result to (nil for go/defer/none)
	params   map[string]Val
	entry    map[string]heapVer
	depth    int
	allocSeq map[string][]int // local name -> cell ids in allocation order
	isDefer  bool
	locals   map[string][]Val // source name -> pointer values (cells / heap cells), allocation order
	measures map[*ssa.BasicBlock]Term
	loopEntry map[*ssa.BasicBlock]*loopSnap // state when the loop was entered from outside (for entry(e))
	loopHeadSnap map[*ssa.BasicBlock]*loopSnap // state at the head of the current iteration (for athead(e))
	curLoop   *ssa.BasicBlock               // innermost loop head whose clauses are being evaluated
	loopMark map[*ssa.BasicBlock]int // number of events on the path when the loop head was entered
	entryView *HeapView
	eventIdx  int
	afterSite ssa.Instruction
	afterKind, afterCallee string
	afterArgs []Val
	// callback frames (closure run in the context of a higher-order callee such as filepath.Walk)
	cbEffect   *effect
	cbClosure  Val
	cbRetTo    ssa.Value
	cbResTypes []types.Type
	cbCallee   string
	cbEvent    int // index of the event of the call that runs the callback
	cbEnsure   func(*State, []Val) // assumes the postconditions of the higher-order callee for the given results
}

type deferred struct {
	call *ssa.CallCommon
	args []Val
	fnv  Val
	pos  ssa.Instruction
}

type State struct {
	heap    map[string]heapVer
	water   Term
	cells   []Val // local cells by id
	ctypes  []types.Type
	frames  []*Frame
	events  []Event
	maybe   []Event // calls that earlier iterations of the loops entered on this path may have made
	hyps    int
	ghostB  map[string]bool
	noHeap  bool // spec-definition mode: heaps are parameters
	specKey *[]string
	gen     int
	genW    Term
	havocAllSeen bool
	localCells   []*localCell // heap-allocated locals of the frames on the stack
}

// loopSnap: heap view and local cells at the moment a loop was entered.
type loopSnap struct {
	view  *HeapView
	cells []Val
}

type localCell struct {
	p        *Ptr
	t        types.Type
	captured bool
}

func (s *State) top() *Frame { return s.frames[len(s.frames)-1] }

func (s *State) clone() *State {
	n := &State{water: s.water, hyps: s.hyps, noHeap: s.noHeap, specKey: s.specKey, gen: s.gen, genW: s.genW, havocAllSeen: s.havocAllSeen}
	n.heap = make(map[string]heapVer, len(s.heap))
	for k, v := range s.heap {
		n.heap[k] = v
	}
	n.cells = append([]Val(nil), s.cells...)
	n.ctypes = append([]types.Type(nil), s.ctypes...)
	n.events = append([]Event(nil), s.events...)
	n.maybe = append([]Event(nil), s.maybe...)
	for _, lc := range s.localCells {
		c := *lc
		n.localCells = append(n.localCells, &c)
	}
	n.frames = make([]*Frame, len(s.frames))
	for i, f := range s.frames {
		nf := *f
		nf.vals = make(map[ssa.Value]Val, len(f.vals))
		for k, v := range f.vals {
			nf.vals[k] = v
		}
		nf.cells = make(map[*ssa.Alloc]int, len(f.cells))
		for k, v := range f.cells {
			nf.cells[k] = v
		}
		nf.allocSeq = make(map[string][]int, len(f.allocSeq))
		for k, v := range f.allocSeq {
			nf.allocSeq[k] = append([]int(nil), v...)
		}
		nf.locals = make(map[string][]Val, len(f.locals))
		for k, v := range f.locals {
			nf.locals[k] = v
		}
		nf.defers = append([]deferred(nil), f.defers...)
		nf.running = append([]deferred(nil), f.running...)
		n.frames[i] = &nf
	}
	return n
}

func (s *State) heapSnapshot() map[string]heapVer {
	m := make(map[string]heapVer, len(s.heap))
	for k, v := range s.heap {
		m[k] = v
	}
	return m
}

// ---------------------------------------------------------------------------
// Types

func qualifier(p *types.Package) string {
	return shortPkg(p.Path())
}

func typeName(t types.Type) string {
	return types.TypeString(t, qualifier)
}

func isNamed(t types.Type, pkg, name string) bool {
	n, ok := types.Unalias(t).(*types.Named)
	if !ok {
		return false
	}
	o := n.Obj()
	return o.Name() == name && o.Pkg() != nil && o.Pkg().Path() == pkg
}

func isTime(t types.Type) bool { return isNamed(t, "time", "Time") || isWrapper(t) }

// isWrapper: a named struct with exactly one field of a scalar-sorted type (marshal.NanoTime{time.Time})
// is represented by that field (same location, same term); selecting the field is the identity.
func isWrapper(t types.Type) bool {
	n, ok := types.Unalias(t).(*types.Named)
	if !ok {
		return false
	}
	st, ok := n.Underlying().(*types.Struct)
	if !ok || st.NumFields() != 1 {
		return false
	}
	ft := st.Field(0).Type()
	if isNamed(ft, "time", "Time") {
		return true
	}
	if b, ok := types.Unalias(ft).Underlying().(*types.Basic); ok {
		return b.Info()&(types.IsInteger|types.IsString|types.IsBoolean) != 0
	}
	return false
}

func wrapperSort(t types.Type) string {
	st := types.Unalias(t).(*types.Named).Underlying().(*types.Struct)
	ft := st.Field(0).Type()
	if isNamed(ft, "time", "Time") {
		return sInt
	}
	return basicSort(types.Unalias(ft).Underlying().(*types.Basic))
}

// isOpaqueStruct: struct types that carry no modelled state.
func isOpaqueStruct(t types.Type) bool {
	n, ok := types.Unalias(t).(*types.Named)
	if !ok {
		return false
	}
	o := n.Obj()
	if o.Pkg() == nil {
		return false
	}
	switch o.Pkg().Path() {
	case "sync", "sync/atomic":
		return true
	}
	return false
}

func under(t types.Type) types.Type { return types.Unalias(t).Underlying() }

// structOf returns the struct type if t is a modelled struct.
func structOf(t types.Type) (*types.Struct, bool) {
	if isTime(t) || isOpaqueStruct(t) {
		return nil, false
	}
	st, ok := under(t).(*types.Struct)
	return st, ok
}

type leaf struct {
	suffix string
	sort   string
	typ    types.Type
}

func basicSort(b *types.Basic) string {
	switch {
	case b.Info()&types.IsBoolean != 0:
		return sBool
	case b.Info()&types.IsString != 0:
		return sStr
	case b.Info()&types.IsFloat != 0:
		return sReal
	case b.Info()&types.IsInteger != 0:
		return sInt
	}
	return sInt // unsafe pointer, complex (unsupported), untyped nil
}

// scalarSort returns the sort of a type that is represented by a single term, or "".
func scalarSort(t types.Type) string {
	if isWrapper(t) {
		return wrapperSort(t)
	}
	if isTime(t) {
		return sInt
	}
	switch u := under(t).(type) {
	case *types.Basic:
		return basicSort(u)
	case *types.Pointer, *types.Map, *types.Chan, *types.Signature:
		return sInt
	}
	return ""
}

// leavesOf flattens a non-struct type into its leaves (slice -> 4, iface -> 2, scalar -> 1).
func leavesOf(t types.Type) []leaf {
	if s := scalarSort(t); s != "" {
		switch under(t).(type) {
		case *types.Pointer, *types.Map, *types.Chan:
			if !isTime(t) {
				return []leaf{{"^", s, t}} // "^" marks pointer-valued leaves (bounded by the allocation watermark)
			}
		}
		return []leaf{{"", s, t}}
	}
	switch under(t).(type) {
	case *types.Slice:
		return []leaf{{"#arr^", sInt, nil}, {"#off", sInt, nil}, {"#len", sInt, nil}, {"#cap", sInt, nil}}
	case *types.Interface:
		return []leaf{{"#tag", sInt, nil}, {"#val", sInt, nil}}
	}
	return nil
}

// ---------------------------------------------------------------------------
// Registry shared by one function verification (symbols that must be declared)

type Registry struct {
	typeIDs   map[string]int
	typeByID  []types.Type
	globalIDs map[string]int
	fresh     int
}

func newRegistry() *Registry {
	return &Registry{typeIDs: map[string]int{}, globalIDs: map[string]int{}}
}

func (r *Registry) typeID(t types.Type) int {
	k := typeName(t)
	if id, ok := r.typeIDs[k]; ok {
		return id
	}
	id := len(r.typeIDs) + 1
	r.typeIDs[k] = id
	r.typeByID = append(r.typeByID, t)
	return id
}

func (r *Registry) globalRef(name string) Term {
	id, ok := r.globalIDs[name]
	if !ok {
		id = len(r.globalIDs) + 1
		r.globalIDs[name] = id
	}
	return intLit(int64(-id))
}

func sortedKeys[V any](m map[string]V) []string {
	ks := make([]string, 0, len(m))
	for k := range m {
		ks = append(ks, k)
	}
	sort.Strings(ks)
	return ks
}

func shortTerm(t Term) string {
	s := t.S
	if len(s) > 160 {
		s = s[:160] + "…"
	}
	return s
}

func (v Val) String() string {
	switch v.K {
	case KScalar:
		return shortTerm(v.T)
	case KPtr:
		switch v.P.Kind {
		case PObj:
			return "&obj(" + shortTerm(v.P.Base) + ")"
		case PField:
			return fmt.Sprintf("&field(%s,%d)", shortTerm(v.P.Base), v.P.Field)
		case PElem:
			return "&elem(" + shortTerm(v.P.Arr) + "," + shortTerm(v.P.Idx) + ")"
		case PCell:
			return fmt.Sprintf("&cell%d%v", v.P.Cell, v.P.Path)
		}
	case KClosure:
		return "closure " + v.Fn.String()
	case KNil:
		return "nil"
	case KUnit:
		return "()"
	}
	var parts []string
	for _, f := range v.Fs {
		parts = append(parts, f.String())
	}
	return fmt.Sprintf("%d{%s}", v.K, strings.Join(parts, ", "))
}
