package main

// Heap access: loads, stores, allocation, havoc.

import (
	"fmt"
	"go/types"
	"os"
	"runtime"
	"strings"
)

// HeapView is what `old(...)` needs: the heap versions and the generation used
// for keys that were not touched yet.
type HeapView struct {
	m     map[string]heapVer
	gen   int
	genW  Term
	water Term
}

func (x *Exec) view(st *State) *HeapView {
	return &HeapView{m: st.heapSnapshot(), gen: st.gen, genW: st.genW, water: st.water}
}

// decl declares a symbol in the solver if it is not declared in a live scope.
func (x *Exec) decl(name, line string) {
	if _, ok := x.declared[name]; ok {
		return
	}
	x.declared[name] = len(x.sess.marks)
	x.sess.Emit(line)
}

func (x *Exec) popScope() {
	x.sess.Pop()
	d := len(x.sess.marks)
	for k, v := range x.declared {
		if v > d {
			delete(x.declared, k)
		}
	}
}

func (x *Exec) freshName(hint string) string {
	x.reg.fresh++
	h := hint
	if len(h) > 40 {
		h = h[:40]
	}
	return sym(fmt.Sprintf("%s!%d", h, x.reg.fresh))
}

func (x *Exec) fresh(hint, sort string) Term {
	n := x.freshName(hint)
	x.sess.Emit("(declare-const " + n + " " + sort + ")")
	return Term{n, sort}
}

// name binds a long term to a symbol.
func (x *Exec) name(hint string, t Term) Term {
	if len(t.S) < 120 || x.pure > 0 {
		return t
	}
	n := x.freshName(hint)
	x.sess.Emit("(define-fun " + n + " () " + t.Sort + " " + t.S + ")")
	return Term{n, t.Sort}
}

func (x *Exec) assume(t Term) {
	if x.pure > 0 {
		return
	}
	x.sess.Assert(t)
}

// keySort returns the array sort of a heap key.
func keySort(key string, leafSort string) string {
	switch key[0] {
	case 'E':
		return arrSort(sInt, arrSort(sInt, leafSort))
	}
	return arrSort(sInt, leafSort)
}

// heapTerm returns the current array for a heap key in the given view.
func (x *Exec) heapTerm(hv *HeapView, st *State, key, sort string) heapVer {
	if st != nil && st.noHeap {
		n := sym("hp!" + key)
		found := false
		for _, k := range *st.specKey {
			if k == key+"\x00"+sort {
				found = true
			}
		}
		if !found {
			*st.specKey = append(*st.specKey, key+"\x00"+sort)
		}
		return heapVer{T: Term{n, sort}, Epoch: Term{"0", sInt}}
	}
	var m map[string]heapVer
	var gen int
	var genW Term
	if hv != nil {
		m, gen, genW = hv.m, hv.gen, hv.genW
	} else {
		m, gen, genW = st.heap, st.gen, st.genW
	}
	if v, ok := m[key]; ok {
		return v
	}
	n := sym(fmt.Sprintf("%s@g%d", key, gen))
	x.decl(n, "(declare-const "+n+" "+sort+")")
	if strings.HasSuffix(key, "^") {
		x.decl(n+"!ax", ptrBoundAxiom(Term{n, sort}, genW))
	}
	return heapVer{T: Term{n, sort}, Epoch: genW}
}

func (x *Exec) heapSet(st *State, key string, t Term) {
	if st.noHeap {
		return
	}
	n := x.freshName(key + "@")
	x.sess.Emit("(define-fun " + n + " () " + t.Sort + " " + t.S + ")")
	st.heap[key] = heapVer{T: Term{n, t.Sort}, Epoch: st.water}
	x.touched[key] = t.Sort
}

func (x *Exec) heapHavocKey(st *State, key, sort string) {
	n := x.fresh(key+"@h", sort)
	if strings.HasSuffix(key, "^") {
		x.sess.Emit(ptrBoundAxiom(n, st.water))
	}
	st.heap[key] = heapVer{T: n, Epoch: st.water}
	x.touched[key] = sort
}

// ptrBoundAxiom: every pointer stored in a heap that was not written by this function lies
// below the allocation watermark of that heap (objects allocated later are distinct from it).
func ptrBoundAxiom(h Term, w Term) string {
	el := arrElem(h.Sort)
	if strings.HasPrefix(el, "(Array ") {
		is := arrIndex(el)
		return fmt.Sprintf("(assert (forall ((pa Int) (pi %s)) (! (< (select (select %s pa) pi) %s) :pattern ((select (select %s pa) pi)))))", is, h.S, w.S, h.S)
	}
	return fmt.Sprintf("(assert (forall ((pa Int)) (! (< (select %s pa) %s) :pattern ((select %s pa)))))", h.S, w.S, h.S)
}

// havocAll forgets every heap; the watermark moves.
func (x *Exec) havocAll(st *State) {
	if os.Getenv("GOVC_DEBUG") != "" {
		buf := make([]byte, 2048)
		n := runtime.Stack(buf, false)
		lines := strings.Split(string(buf[:n]), "\n")
		var fr []string
		for i := 3; i+1 < len(lines) && len(fr) < 3; i += 2 {
			fr = append(fr, strings.TrimSpace(lines[i]))
		}
		where := ""
		if len(st.frames) > 0 {
			f := st.top()
			if f.block != nil && f.pc < len(f.block.Instrs) {
				where = x.P.pos(f.block.Instrs[f.pc].Pos())
			}
		}
		debugf("havocAll in %s near %s via %s", x.fname, where, strings.Join(fr, " <- "))
	}
	// escaping locals (heap Allocs of the functions on the stack) that no closure has captured yet
	// cannot be reached by a callee: their contents survive the havoc
	type keep struct {
		p *Ptr
		t types.Type
		v Val
	}
	var kept []keep
	for _, lc := range st.localCells {
		if lc.captured {
			continue
		}
		kept = append(kept, keep{lc.p, lc.t, x.loadPtr(st, nil, lc.p, lc.t)})
	}
	defer func() {
		for _, k := range kept {
			x.storePtr(st, k.p, k.t, k.v)
		}
	}()
	x.bumpWater(st)
	st.heap = map[string]heapVer{}
	x.reg.fresh++
	st.gen = x.reg.fresh
	st.genW = st.water
	st.havocAllSeen = true
}

func (x *Exec) bumpWater(st *State) {
	w := x.fresh("W", sInt)
	x.assume(app(sBool, ">=", w, st.water))
	st.water = w
}

// ---- locations -----------------------------------------------------------

func fieldKey(structT types.Type, fieldName, suffix string) string {
	return "F|" + typeName(structT) + "|" + fieldName + suffix
}
func cellKey(t types.Type, suffix string) string { return "C|" + typeName(t) + "|" + suffix }
func elemKey(t types.Type, suffix string) string { return "E|" + typeName(t) + "|" + suffix }

func (x *Exec) uf(name string, ret string, args ...Term) Term {
	n := sym(name)
	var as []string
	for _, a := range args {
		as = append(as, a.Sort)
	}
	x.decl(n, "(declare-fun "+n+" ("+strings.Join(as, " ")+") "+ret+")")
	if len(args) == 0 {
		return Term{n, ret}
	}
	return app(ret, n, args...)
}

// fieldPtr returns the pointer to field i of the struct pointed to by p.
func (x *Exec) fieldPtr(st *State, p *Ptr, i int) *Ptr {
	switch p.Kind {
	case PCell:
		return &Ptr{Kind: PCell, Cell: p.Cell, Path: append(append([]int(nil), p.Path...), i)}
	case PObj:
		stt, ok := structOf(p.Elem)
		if !ok {
			x.unsupported("field address of non-struct " + typeName(p.Elem))
			return &Ptr{Kind: PObj, Base: x.fresh("badptr", sInt), Elem: p.Elem}
		}
		ft := stt.Field(i).Type()
		if _, isStruct := structOf(ft); isStruct {
			b := x.uf("ip!"+typeName(p.Elem)+"!"+stt.Field(i).Name(), sInt, p.Base)
			return &Ptr{Kind: PObj, Base: b, Elem: ft}
		}
		return &Ptr{Kind: PField, Base: p.Base, Elem: p.Elem, Field: i}
	}
	x.unsupported("field address through " + fmt.Sprint(p.Kind))
	return &Ptr{Kind: PObj, Base: x.fresh("badptr", sInt), Elem: p.Elem}
}

func (x *Exec) elemPtr(arr, idx Term, et types.Type) *Ptr {
	if _, isStruct := structOf(et); isStruct {
		b := x.uf("ep!"+typeName(et), sInt, arr, idx)
		return &Ptr{Kind: PObj, Base: b, Elem: et}
	}
	return &Ptr{Kind: PElem, Arr: arr, Idx: idx, Elem: et}
}

// ptrTerm converts a pointer value into a single Int term.
func (x *Exec) ptrTerm(v Val) Term {
	switch v.K {
	case KNil:
		return tNil
	case KScalar:
		return v.T
	case KClosure:
		// a function value made from a function or closure is never nil
		t := x.uf("fn!"+v.Fn.String(), sInt)
		x.decl(t.S+"!nonnil", "(assert (not (= "+t.S+" 0)))")
		return t
	case KPtr:
		p := v.P
		switch p.Kind {
		case PObj:
			return p.Base
		case PField:
			stt, _ := structOf(p.Elem)
			return x.uf("ipf!"+typeName(p.Elem)+"!"+stt.Field(p.Field).Name(), sInt, p.Base)
		case PElem:
			return x.uf("epp!"+typeName(p.Elem), sInt, p.Arr, p.Idx)
		case PCell:
			return x.uf(fmt.Sprintf("cellptr!%d", p.Cell), sInt)
		}
	}
	x.unsupported("pointer term of " + v.String())
	return x.fresh("ptr", sInt)
}

func isPtrLike(t types.Type) bool {
	if t == nil {
		return false
	}
	switch under(t).(type) {
	case *types.Pointer, *types.Map, *types.Chan:
		return true
	}
	return false
}

// valFromLeaves builds a value of a non-struct type from its leaves.
func (x *Exec) valFromLeaves(t types.Type, get func(l leaf) Term) Val {
	ls := leavesOf(t)
	if ls == nil {
		x.unsupported("value of type " + typeName(t))
		return Val{K: KUnit, Typ: t}
	}
	switch under(t).(type) {
	case *types.Slice:
		return Val{K: KSlice, Typ: t, Fs: []Val{scalar(get(ls[0]), nil), scalar(get(ls[1]), nil), scalar(get(ls[2]), nil), scalar(get(ls[3]), nil)}}
	case *types.Interface:
		return Val{K: KIface, Typ: t, Fs: []Val{scalar(get(ls[0]), nil), scalar(get(ls[1]), nil)}}
	case *types.Pointer:
		if !isTime(t) {
			pt := under(t).(*types.Pointer)
			return Val{K: KPtr, Typ: t, P: &Ptr{Kind: PObj, Base: get(ls[0]), Elem: pt.Elem()}}
		}
	}
	return scalar(get(ls[0]), t)
}

// leafTerms flattens a value of non-struct type t into leaf terms.
func (x *Exec) leafTerms(v Val, t types.Type) []Term {
	switch v.K {
	case KSlice, KIface:
		out := make([]Term, len(v.Fs))
		for i, f := range v.Fs {
			out[i] = f.T
		}
		return out
	case KNil:
		ls := leavesOf(t)
		out := make([]Term, len(ls))
		for i, l := range ls {
			out[i] = zeroOfSort(l.sort)
		}
		return out
	case KPtr, KClosure:
		return []Term{x.ptrTerm(v)}
	case KScalar:
		return []Term{v.T}
	}
	x.unsupported("leaf terms of " + v.String() + " : " + typeName(t))
	return []Term{x.fresh("bad", sInt)}
}

func zeroOfSort(s string) Term {
	switch s {
	case sBool:
		return tFalse
	case sStr:
		return Term{`""`, sStr}
	case sReal:
		return Term{"0.0", sReal}
	}
	return tZero
}

func (x *Exec) zeroVal(t types.Type) Val {
	if stt, ok := structOf(t); ok {
		v := Val{K: KStruct, Typ: t}
		for i := 0; i < stt.NumFields(); i++ {
			v.Fs = append(v.Fs, x.zeroVal(stt.Field(i).Type()))
		}
		return v
	}
	if isOpaqueStruct(t) {
		return Val{K: KUnit, Typ: t}
	}
	if _, ok := under(t).(*types.Array); ok {
		return Val{K: KUnit, Typ: t}
	}
	if _, ok := under(t).(*types.Tuple); ok {
		return Val{K: KUnit, Typ: t}
	}
	return x.valFromLeaves(t, func(l leaf) Term { return zeroOfSort(l.sort) })
}

// freshVal creates an unconstrained value of type t (with basic type facts).
func (x *Exec) freshVal(st *State, t types.Type, hint string) Val {
	if stt, ok := structOf(t); ok {
		v := Val{K: KStruct, Typ: t}
		for i := 0; i < stt.NumFields(); i++ {
			v.Fs = append(v.Fs, x.freshVal(st, stt.Field(i).Type(), hint+"."+stt.Field(i).Name()))
		}
		return v
	}
	if isOpaqueStruct(t) {
		return Val{K: KUnit, Typ: t}
	}
	if tt, ok := under(t).(*types.Tuple); ok {
		v := Val{K: KTuple, Typ: t}
		for i := 0; i < tt.Len(); i++ {
			v.Fs = append(v.Fs, x.freshVal(st, tt.At(i).Type(), fmt.Sprintf("%s.%d", hint, i)))
		}
		return v
	}
	if _, ok := under(t).(*types.Array); ok {
		return Val{K: KUnit, Typ: t}
	}
	v := x.valFromLeaves(t, func(l leaf) Term { return x.fresh(hint+l.suffix, l.sort) })
	x.typeFacts(st, v, t, st.water)
	return v
}

// typeFacts assumes the representation invariants of a value (slice header, pointer bound).
func (x *Exec) typeFacts(st *State, v Val, t types.Type, epoch Term) {
	if x.pure > 0 {
		return
	}
	switch v.K {
	case KSlice:
		arr, off, ln, cp := v.Fs[0].T, v.Fs[1].T, v.Fs[2].T, v.Fs[3].T
		x.assume(tAnd(app(sBool, "<=", tZero, off), app(sBool, "<=", tZero, ln), app(sBool, "<=", ln, cp), app(sBool, "<", arr, epoch),
			app(sBool, "<=", tZero, arr),
			tImplies(tEq(arr, tZero), tEq(cp, tZero))))
	case KPtr:
		if v.P.Kind == PObj && !isNumLit(v.P.Base.S) {
			x.assume(app(sBool, "<", v.P.Base, epoch))
		}
	case KIface:
		// a nil interface has no payload: nil-ness is decided by the type tag alone
		x.assume(tAnd(app(sBool, "<=", tZero, v.Fs[0].T), tImplies(tEq(v.Fs[0].T, tZero), tEq(v.Fs[1].T, tZero))))
	case KScalar:
		if t == nil {
			return
		}
		if b, ok := under(t).(*types.Basic); ok && b.Info()&types.IsUnsigned != 0 {
			x.assume(app(sBool, "<=", tZero, v.T))
		}
		if isPtrLike(t) && !isNumLit(v.T.S) {
			x.assume(app(sBool, "<", v.T, epoch))
		}
	}
}

func sel(h Term, idx []Term) Term {
	t := h
	for _, i := range idx {
		t = tSelect(t, i)
	}
	return t
}

func upd(h Term, idx []Term, v Term) Term {
	if len(idx) == 1 {
		return tStore(h, idx[0], v)
	}
	inner := tSelect(h, idx[0])
	return tStore(h, idx[0], upd(inner, idx[1:], v))
}

// locKey returns key prefix, index terms and value type for a non-struct location.
func (x *Exec) locOf(p *Ptr) (func(suffix string) string, []Term, types.Type, bool) {
	switch p.Kind {
	case PObj:
		return func(s string) string { return cellKey(p.Elem, s) }, []Term{p.Base}, p.Elem, true
	case PField:
		stt, _ := structOf(p.Elem)
		f := stt.Field(p.Field)
		return func(s string) string { return fieldKey(p.Elem, f.Name(), s) }, []Term{p.Base}, f.Type(), true
	case PElem:
		return func(s string) string { return elemKey(p.Elem, s) }, []Term{p.Arr, p.Idx}, p.Elem, true
	}
	return nil, nil, nil, false
}

// loadPtr loads a value of type t through p in the heap view hv (nil = current).
func (x *Exec) loadPtr(st *State, hv *HeapView, p *Ptr, t types.Type) Val {
	if p.Kind == PCell {
		v := st.cells[p.Cell]
		for _, i := range p.Path {
			if v.K != KStruct || i >= len(v.Fs) {
				x.unsupported("cell path into " + v.String())
				return x.freshVal(st, t, "badcell")
			}
			v = v.Fs[i]
		}
		return v
	}
	if isOpaqueStruct(t) {
		return Val{K: KUnit, Typ: t}
	}
	if stt, ok := structOf(t); ok {
		if p.Kind != PObj {
			x.unsupported("struct load through non-object pointer")
			return x.freshVal(st, t, "bad")
		}
		v := Val{K: KStruct, Typ: t}
		for i := 0; i < stt.NumFields(); i++ {
			fp := x.fieldPtr(st, p, i)
			v.Fs = append(v.Fs, x.loadPtr(st, hv, fp, stt.Field(i).Type()))
		}
		return v
	}
	if _, ok := under(t).(*types.Array); ok {
		return Val{K: KUnit, Typ: t}
	}
	keyf, idx, _, ok := x.locOf(p)
	if !ok || leavesOf(t) == nil {
		x.unsupported("load of " + typeName(t))
		return x.freshVal(st, t, "bad")
	}
	var epoch Term
	v := x.valFromLeaves(t, func(l leaf) Term {
		h := x.heapTerm(hv, st, keyf(l.suffix), keySort(keyf(l.suffix), l.sort))
		epoch = h.Epoch
		return sel(h.T, idx)
	})
	if !st.noHeap {
		x.typeFacts(st, v, t, epoch)
	}
	return v
}

func (x *Exec) storePtr(st *State, p *Ptr, t types.Type, v Val) {
	if p.Kind == PCell {
		st.cells[p.Cell] = setPath(st.cells[p.Cell], p.Path, v)
		return
	}
	if isOpaqueStruct(t) {
		return
	}
	if stt, ok := structOf(t); ok {
		if p.Kind != PObj {
			x.unsupported("struct store through non-object pointer")
			return
		}
		for i := 0; i < stt.NumFields(); i++ {
			fp := x.fieldPtr(st, p, i)
			var fv Val
			if v.K == KStruct && i < len(v.Fs) {
				fv = v.Fs[i]
			} else {
				fv = x.zeroVal(stt.Field(i).Type())
			}
			x.storePtr(st, fp, stt.Field(i).Type(), fv)
		}
		return
	}
	if _, ok := under(t).(*types.Array); ok {
		return
	}
	keyf, idx, _, ok := x.locOf(p)
	ls := leavesOf(t)
	if !ok || ls == nil {
		x.unsupported("store of " + typeName(t))
		return
	}
	terms := x.leafTerms(v, t)
	for i, l := range ls {
		k := keyf(l.suffix)
		h := x.heapTerm(nil, st, k, keySort(k, l.sort))
		tv := terms[i]
		if tv.Sort != l.sort {
			tv = coerce(tv, l.sort)
		}
		x.heapSet(st, k, upd(h.T, idx, tv))
	}
}

func coerce(t Term, sort string) Term {
	if t.Sort == sort {
		return t
	}
	if t.Sort == sInt && sort == sReal {
		return app(sReal, "to_real", t)
	}
	if t.Sort == sReal && sort == sInt {
		return app(sInt, "to_int", t)
	}
	return Term{t.S, sort}
}

func setPath(v Val, path []int, nv Val) Val {
	if len(path) == 0 {
		return nv
	}
	out := v
	out.Fs = append([]Val(nil), v.Fs...)
	if path[0] < len(out.Fs) {
		out.Fs[path[0]] = setPath(out.Fs[path[0]], path[1:], nv)
	}
	return out
}

// allocObj allocates a fresh object of type t (zero-initialised) and returns the pointer.
func (x *Exec) allocObj(st *State, t types.Type, hint string, zero bool) *Ptr {
	r := x.fresh("new!"+hint, sInt)
	x.assume(tAnd(app(sBool, ">=", r, st.water), app(sBool, ">", r, tZero)))
	st.water = x.name("W", app(sInt, "+", r, intLit(1)))
	p := &Ptr{Kind: PObj, Base: r, Elem: t}
	if at, ok := under(t).(*types.Array); ok {
		if zero && at.Len() <= 16 {
			for i := int64(0); i < at.Len(); i++ {
				ep := x.elemPtr(r, intLit(i), at.Elem())
				x.storePtr(st, ep, at.Elem(), x.zeroVal(at.Elem()))
			}
		}
		return p
	}
	if zero {
		x.storePtr(st, p, t, x.zeroVal(t))
	}
	return p
}

// keysOfType enumerates the heap keys (with sorts) that a store of a whole value of type t
// through a pointer of the given flavour can touch.
func keysOfStruct(t types.Type, seen map[string]bool, out map[string]string) {
	stt, ok := structOf(t)
	if !ok {
		return
	}
	tn := typeName(t)
	if seen[tn] {
		return
	}
	seen[tn] = true
	for i := 0; i < stt.NumFields(); i++ {
		f := stt.Field(i)
		if _, isStruct := structOf(f.Type()); isStruct {
			keysOfStruct(f.Type(), seen, out)
			continue
		}
		for _, l := range leavesOf(f.Type()) {
			k := fieldKey(t, f.Name(), l.suffix)
			out[k] = keySort(k, l.sort)
		}
	}
}

func keysOfPointee(t types.Type, out map[string]string) {
	if _, ok := structOf(t); ok {
		keysOfStruct(t, map[string]bool{}, out)
		return
	}
	if at, ok := under(t).(*types.Array); ok {
		keysOfElem(at.Elem(), out)
		return
	}
	for _, l := range leavesOf(t) {
		k := cellKey(t, l.suffix)
		out[k] = keySort(k, l.sort)
	}
}

func keysOfElem(t types.Type, out map[string]string) {
	if _, ok := structOf(t); ok {
		keysOfStruct(t, map[string]bool{}, out)
		return
	}
	for _, l := range leavesOf(t) {
		k := elemKey(t, l.suffix)
		out[k] = keySort(k, l.sort)
	}
}

func keysOfField(structT types.Type, i int, out map[string]string) {
	stt, ok := structOf(structT)
	if !ok {
		return
	}
	f := stt.Field(i)
	if _, isStruct := structOf(f.Type()); isStruct {
		keysOfStruct(f.Type(), map[string]bool{}, out)
		return
	}
	for _, l := range leavesOf(f.Type()) {
		k := fieldKey(structT, f.Name(), l.suffix)
		out[k] = keySort(k, l.sort)
	}
}

func mapKeys(mt *types.Map, out map[string]string) {
	ks := scalarSort(mt.Key())
	if ks == "" {
		return
	}
	kn := "M|" + typeName(mt.Key()) + "|" + typeName(mt.Elem()) + "|"
	out[kn+"#present"] = arrSort(sInt, arrSort(ks, sBool))
	if _, isStruct := structOf(mt.Elem()); isStruct {
		return
	}
	for _, l := range leavesOf(mt.Elem()) {
		out[kn+l.suffix] = arrSort(sInt, arrSort(ks, l.sort))
	}
}
