package main

// Counterexample replay against the real code.
//
// For a failed `ensures` / `on return` obligation with a model, the inputs of the function are read
// off the model (type-directed walk over the parameters and the entry heap, values fetched from the
// solver with get-value), a generic reflection harness (replay/harness.go.tmpl) builds them, calls the
// REAL function through `go test -overlay` (nothing is written into the repository) and evaluates the
// violated clause over the values before and after the call. Functions whose inputs cannot be built
// from plain data (interfaces, maps, channels, function values) are not replayable this way; their
// violations carry the model and end with no-failing-input-found.

import (
	"bufio"
	"encoding/json"
	"fmt"
	"go/constant"
	"go/types"
	"io"
	"os"
	"os/exec"
	"path/filepath"
	"strconv"
	"strings"
	"time"
)

// ReplayInfo is what a function verification leaves behind for the replay of its obligations.
type ReplayInfo struct {
	PkgName    string
	PkgDir     string // relative to the repository root
	Target     string // Go expression naming the function inside its package
	ParamNames []string
	ParamTypes []types.Type
	ParamVals  []Val
	Results    []string
	Requires   []string
	Specs      map[string]map[string]any
	Consts     map[string]int64
	Repo       string
}

func (x *Exec) replayInfo() *ReplayInfo {
	fn := x.fn
	if fn.Parent() != nil || fn.Pkg == nil {
		return nil // closures are not callable from a test
	}
	ri := &ReplayInfo{PkgName: fn.Pkg.Pkg.Name(), Repo: x.P.repo, Specs: map[string]map[string]any{}, Consts: map[string]int64{}}
	if len(fn.Pkg.Pkg.Path()) >= len(modPrefix) {
		ri.PkgDir = strings.TrimPrefix(strings.TrimPrefix(fn.Pkg.Pkg.Path(), modPrefix), "/")
	}
	if ri.PkgDir == "" {
		ri.PkgDir = "."
	}
	name := fn.Name()
	if recv := fn.Signature.Recv(); recv != nil {
		rt := types.TypeString(recv.Type(), func(p *types.Package) string { return "" })
		ri.Target = "(" + rt + ")." + name
	} else {
		ri.Target = name
	}
	for _, p := range fn.Params {
		ri.ParamNames = append(ri.ParamNames, p.Name())
		ri.ParamTypes = append(ri.ParamTypes, p.Type())
		ri.ParamVals = append(ri.ParamVals, x.params[p.Name()])
	}
	res := fn.Signature.Results()
	for i := 0; i < res.Len(); i++ {
		ri.Results = append(ri.Results, res.At(i).Name())
	}
	for _, r := range x.fc.Requires {
		ri.Requires = append(ri.Requires, r.Src)
	}
	for n, sf := range x.P.C.Specs {
		if sf.Body == nil {
			continue
		}
		var ps []string
		for _, p := range sf.Params {
			ps = append(ps, p.Name)
		}
		ri.Specs[n] = map[string]any{"params": ps, "body": sf.Src}
	}
	sc := fn.Pkg.Pkg.Scope()
	for _, n := range sc.Names() {
		if c, ok := sc.Lookup(n).(*types.Const); ok && c.Val().Kind() == constant.Int {
			if v, ok := constant.Int64Val(c.Val()); ok {
				ri.Consts[n] = v
			}
		}
	}
	return ri
}

// ---- talking to the solver about one model -------------------------------------------------------

type modelSession struct {
	cmd    *exec.Cmd
	in     io.WriteCloser
	out    *bufio.Reader
	script string
}

// openModel re-establishes the model with the solver that found it (falling back to the others).
func openModel(scriptFile, solver string) (*modelSession, error) {
	bins := []string{"z3-new", "/usr/bin/z3"}
	if strings.HasPrefix(solver, "z3-4.8") {
		bins = []string{"/usr/bin/z3", "z3-new"}
	}
	var last error
	for _, bin := range bins {
		m, err := openModelWith(scriptFile, bin)
		if err == nil {
			return m, nil
		}
		last = err
	}
	return nil, last
}

func openModelWith(scriptFile, bin string) (*modelSession, error) {
	b, err := os.ReadFile(scriptFile)
	if err != nil {
		return nil, err
	}
	script := string(b)
	if i := strings.LastIndex(script, "(check-sat)"); i >= 0 {
		script = script[:i]
	}
	cmd := exec.Command(bin, "-in", "-smt2", "-t:20000", "-memory:4000")
	in, _ := cmd.StdinPipe()
	out, _ := cmd.StdoutPipe()
	if err := cmd.Start(); err != nil {
		return nil, err
	}
	// watchdog: model extraction is a conversation over pipes; whatever goes wrong in it (a reply in
	// an unexpected shape, a solver that never answers) must end, not hang the check
	go func(p *os.Process) {
		time.Sleep(90 * time.Second)
		p.Kill()
	}(cmd.Process)
	m := &modelSession{cmd: cmd, in: in, out: bufio.NewReaderSize(out, 1<<16), script: script}
	io.WriteString(in, script+"\n(check-sat)\n")
	for {
		line, err := m.out.ReadString('\n')
		if err != nil {
			m.close()
			return nil, fmt.Errorf("solver ended: %v", err)
		}
		line = strings.TrimSpace(line)
		if line == "sat" {
			return m, nil
		}
		if line == "unsat" || line == "unknown" || line == "timeout" {
			m.close()
			return nil, fmt.Errorf("model not reproducible with z3-new (%s)", line)
		}
	}
}

func (m *modelSession) close() {
	io.WriteString(m.in, "(exit)\n")
	m.in.Close()
	done := make(chan struct{})
	go func() { m.cmd.Wait(); close(done) }()
	select {
	case <-done:
	case <-time.After(2 * time.Second):
		m.cmd.Process.Kill()
	}
}

// get returns the model value of a term as SMT-LIB text.
func (m *modelSession) get(term string) (string, error) {
	io.WriteString(m.in, "(get-value ("+term+"))\n")
	depth := 0
	var b strings.Builder
	started := false
	for {
		c, err := m.out.ReadByte()
		if err != nil {
			return "", err
		}
		if c == '"' {
			// string literal: copy verbatim up to the closing quote ("" is an escaped quote)
			b.WriteByte(c)
			for {
				d, err := m.out.ReadByte()
				if err != nil {
					return "", err
				}
				b.WriteByte(d)
				if d == '"' {
					if p, _ := m.out.Peek(1); len(p) == 1 && p[0] == '"' {
						m.out.ReadByte()
						b.WriteByte('"')
						continue
					}
					break
				}
			}
			continue
		}
		if c == '(' {
			depth++
			started = true
		}
		if started {
			b.WriteByte(c)
		}
		if c == ')' {
			depth--
			if started && depth == 0 {
				break
			}
		}
	}
	s := strings.TrimSpace(b.String())
	if strings.HasPrefix(s, "(error") {
		return "", fmt.Errorf("%s", s)
	}
	// ((term value)) -> value : strip the outer parens and the echoed term
	s = strings.TrimSuffix(strings.TrimPrefix(s, "(("), "))")
	t := strings.TrimSpace(term)
	if strings.HasPrefix(s, t) {
		return strings.TrimSpace(s[len(t):]), nil
	}
	// the solver may print the term differently: take the last s-expression
	if i := strings.LastIndex(s, " "); i >= 0 && !strings.HasSuffix(s, ")") {
		return strings.TrimSpace(s[i:]), nil
	}
	if strings.HasSuffix(s, ")") {
		d := 0
		for i := len(s) - 1; i >= 0; i-- {
			if s[i] == ')' {
				d++
			} else if s[i] == '(' {
				d--
				if d == 0 {
					return s[i:], nil
				}
			}
		}
	}
	return s, nil
}

func (m *modelSession) declared(symbol string) bool {
	return strings.Contains(m.script, "(declare-const "+symbol+" ") || strings.Contains(m.script, "(declare-fun "+symbol+" ") || strings.Contains(m.script, "(define-fun "+symbol+" ")
}

func parseSMTInt(s string) (int64, bool) {
	s = strings.TrimSpace(s)
	neg := false
	if strings.HasPrefix(s, "(-") {
		neg = true
		s = strings.TrimSpace(strings.TrimSuffix(strings.TrimPrefix(s, "(-"), ")"))
	}
	n, err := strconv.ParseInt(s, 10, 64)
	if err != nil {
		return 0, false
	}
	if neg {
		n = -n
	}
	return n, true
}

func parseSMTString(s string) (string, bool) {
	s = strings.TrimSpace(s)
	if len(s) < 2 || s[0] != '"' || s[len(s)-1] != '"' {
		return "", false
	}
	body := strings.ReplaceAll(s[1:len(s)-1], `""`, `"`)
	var b strings.Builder
	for i := 0; i < len(body); i++ {
		if strings.HasPrefix(body[i:], `\u{`) {
			if j := strings.Index(body[i:], "}"); j > 0 {
				if r, err := strconv.ParseInt(body[i+3:i+j], 16, 32); err == nil {
					b.WriteRune(rune(r))
					i += j
					continue
				}
			}
		}
		b.WriteByte(body[i])
	}
	return b.String(), true
}

// ---- reading the inputs off the model ---------------------------------------------------------------

type extractor struct {
	m       *modelSession
	objs    map[string]bool
	nobj    int
	fail    string
	depth   int
	collect bool     // first pass: gather the integer terms that a smaller model should bound
	terms   []string // integer-valued input terms (not object references)
	noted   map[string]bool
}

func (e *extractor) note(term string) {
	if e.collect && !e.noted[term] {
		e.noted[term] = true
		e.terms = append(e.terms, term)
	}
}

// ref reads an object reference (never bounded by the shrink pass).
func (e *extractor) ref(term string) (int64, bool) {
	v, err := e.m.get(term)
	if err != nil {
		e.fail = "get-value: " + err.Error()
		return 0, false
	}
	n, ok := parseSMTInt(v)
	if !ok {
		e.fail = "not an integer: " + v
	}
	return n, ok
}

// check re-solves with extra assertions in a new scope; on success the scope stays open.
func (m *modelSession) tryBound(terms []string, bound int64) bool {
	var b strings.Builder
	b.WriteString("(push 1)\n")
	for _, t := range terms {
		fmt.Fprintf(&b, "(assert (and (<= (- %d) %s) (<= %s %d)))\n", bound, t, t, bound)
	}
	b.WriteString("(check-sat)\n")
	io.WriteString(m.in, b.String())
	for {
		line, err := m.out.ReadString('\n')
		if err != nil {
			return false
		}
		line = strings.TrimSpace(line)
		switch line {
		case "sat":
			return true
		case "unsat", "unknown", "timeout":
			io.WriteString(m.in, "(pop 1)\n(check-sat)\n")
			for {
				l2, err := m.out.ReadString('\n')
				if err != nil {
					return false
				}
				l2 = strings.TrimSpace(l2)
				if l2 == "sat" || l2 == "unsat" || l2 == "unknown" || l2 == "timeout" {
					break
				}
			}
			return false
		}
	}
}

func (e *extractor) int(term string) (int64, bool) {
	e.note(term)
	v, err := e.m.get(term)
	if err != nil {
		e.fail = "get-value: " + err.Error()
		return 0, false
	}
	n, ok := parseSMTInt(v)
	if !ok {
		e.fail = "not an integer: " + v
	}
	return n, ok
}

// entryHeap returns the term of the entry version of a heap key, or "" if the function never read it.
func (e *extractor) entryHeap(key string) string {
	n := sym(key + "@g0")
	if e.m.declared(n) {
		return n
	}
	return ""
}

func (e *extractor) scalar(term string, t types.Type) (any, bool) {
	if term == "" {
		return nil, true // never read by the function: any value will do (the zero value)
	}
	switch scalarSort(t) {
	case sBool:
		v, err := e.m.get(term)
		if err != nil {
			e.fail = err.Error()
			return nil, false
		}
		return strings.TrimSpace(v) == "true", true
	case sStr:
		v, err := e.m.get(term)
		if err != nil {
			e.fail = err.Error()
			return nil, false
		}
		s, ok := parseSMTString(v)
		if !ok {
			e.fail = "not a string: " + v
		}
		return s, ok
	case sInt:
		if isTime(t) {
			n, ok := e.int(term)
			if !ok {
				return nil, false
			}
			if n != 0 {
				e.fail = "a non-zero time value cannot be built from the model"
				return nil, false
			}
			return nil, true
		}
		n, ok := e.int(term)
		if !ok {
			return nil, false
		}
		return strconv.FormatInt(n, 10), true
	}
	e.fail = "unsupported scalar type " + typeName(t)
	return nil, false
}

// value builds the JSON description of the value of type t whose leaves are given by leaf(suffix).
func (e *extractor) value(t types.Type, leafTerm func(l leaf) string) (any, bool) {
	if e.fail != "" {
		return nil, false
	}
	e.depth++
	defer func() { e.depth-- }()
	if e.depth > 6 {
		e.fail = "model too deep"
		return nil, false
	}
	if isOpaqueStruct(t) {
		return nil, true
	}
	ls := leavesOf(t)
	if isTime(t) && len(ls) == 1 {
		// instants are integers (nanoseconds) in the model
		term := leafTerm(ls[0])
		if term == "" {
			return nil, true
		}
		n, ok := e.int(term)
		if !ok {
			return nil, false
		}
		if n == 0 {
			return nil, true
		}
		return map[string]any{"unixnano": strconv.FormatInt(n, 10)}, true
	}
	switch u := under(t).(type) {
	case *types.Basic:
		return e.scalar(leafTerm(ls[0]), t)
	case *types.Pointer:
		if isTime(t) {
			return e.scalar(leafTerm(ls[0]), t)
		}
		term := leafTerm(ls[0])
		if term == "" {
			return nil, true
		}
		r, ok := e.ref(term)
		if !ok {
			return nil, false
		}
		if r == 0 {
			return nil, true
		}
		ref := strconv.FormatInt(r, 10)
		if e.objs[ref+"|"+typeName(t)] {
			return map[string]any{"ref": ref}, true
		}
		e.objs[ref+"|"+typeName(t)] = true
		e.nobj++
		if e.nobj > 64 {
			e.fail = "model too large"
			return nil, false
		}
		stt, isStruct := structOf(u.Elem())
		if !isStruct {
			e.fail = "pointer to " + typeName(u.Elem()) + " cannot be built"
			return nil, false
		}
		fields := map[string]any{}
		for i := 0; i < stt.NumFields(); i++ {
			f := stt.Field(i)
			if _, nested := structOf(f.Type()); nested {
				e.fail = "nested struct value " + f.Name()
				return nil, false
			}
			fv, ok := e.value(f.Type(), func(l leaf) string {
				h := e.entryHeap(fieldKey(u.Elem(), f.Name(), l.suffix))
				if h == "" {
					return ""
				}
				return "(select " + h + " " + term + ")"
			})
			if !ok {
				return nil, false
			}
			if fv != nil {
				fields[f.Name()] = fv
			}
		}
		return map[string]any{"ref": ref, "fields": fields}, true
	case *types.Slice:
		arrT, offT, lenT, capT := leafTerm(ls[0]), leafTerm(ls[1]), leafTerm(ls[2]), leafTerm(ls[3])
		if lenT == "" || arrT == "" {
			return nil, true
		}
		arr, ok := e.ref(arrT)
		if !ok {
			return nil, false
		}
		if arr == 0 {
			return map[string]any{"nil": true}, true
		}
		n, ok := e.int(lenT)
		if !ok {
			return nil, false
		}
		cp, _ := e.int(capT)
		off, _ := e.int(offT)
		if e.collect && n > 4 {
			n = 4 // first pass only gathers terms
		}
		if n < 0 || n > 24 {
			e.fail = fmt.Sprintf("slice of length %d in the model", n)
			return nil, false
		}
		if cp > n+8 {
			cp = n + 8
		}
		if _, isStruct := structOf(u.Elem()); isStruct {
			e.fail = "slice of struct values"
			return nil, false
		}
		elems := []any{}
		for i := int64(0); i < n; i++ {
			ev, ok := e.value(u.Elem(), func(l leaf) string {
				h := e.entryHeap(elemKey(u.Elem(), l.suffix))
				if h == "" {
					return ""
				}
				return fmt.Sprintf("(select (select %s %s) %d)", h, arrT, off+i)
			})
			if !ok {
				return nil, false
			}
			elems = append(elems, ev)
		}
		return map[string]any{"elems": elems, "cap": cp}, true
	case *types.Interface:
		tagT := leafTerm(ls[0])
		if tagT == "" {
			return nil, true
		}
		tag, ok := e.int(tagT)
		if !ok {
			return nil, false
		}
		if tag != 0 {
			e.fail = "a non-nil interface value (" + typeName(t) + ") needs a fixture"
			return nil, false
		}
		return nil, true
	case *types.Map, *types.Chan, *types.Signature:
		term := leafTerm(ls[0])
		if term == "" {
			return nil, true
		}
		r, ok := e.int(term)
		if !ok {
			return nil, false
		}
		if r != 0 {
			e.fail = "a non-nil " + typeName(t) + " needs a fixture"
			return nil, false
		}
		return nil, true
	}
	e.fail = "unsupported type " + typeName(t)
	return nil, false
}

func (e *extractor) param(v Val, t types.Type) (any, bool) {
	terms := map[string]string{}
	switch v.K {
	case KScalar:
		terms[""] = v.T.S
		terms["^"] = v.T.S
	case KPtr:
		if v.P.Kind != PObj {
			e.fail = "parameter is not a plain pointer"
			return nil, false
		}
		terms["^"] = v.P.Base.S
	case KSlice:
		terms["#arr^"], terms["#off"], terms["#len"], terms["#cap"] = v.Fs[0].T.S, v.Fs[1].T.S, v.Fs[2].T.S, v.Fs[3].T.S
	case KIface:
		terms["#tag"], terms["#val"] = v.Fs[0].T.S, v.Fs[1].T.S
	default:
		e.fail = "unsupported parameter value"
		return nil, false
	}
	return e.value(t, func(l leaf) string { return terms[l.suffix] })
}

// ---- running the replay ----------------------------------------------------------------------------

// tryReplay returns true if the counterexample was confirmed on the real code; details go into doc.
func tryReplay(prop string, o *Oblig, in *ObligInstance, path, verif string, ri *ReplayInfo, doc map[string]any) bool {
	note := func(s string) bool {
		doc["replay_note"] = s
		return false
	}
	if ri == nil {
		return note("not replayable: closures and functions without a package cannot be called from a test")
	}
	if o.Kind != "ensures" && o.Kind != "on-return" {
		return note("not replayable: only clauses over the state at return are evaluated on the real code (" + o.Kind + ")")
	}
	if in == nil || in.File == "" {
		return note("no solver script")
	}
	hasSat := in.Result == "failed"
	if !hasSat {
		return note("the solver gave no model (" + in.Result + ")")
	}
	for _, w := range []string{"called(", "lastret(", "lastarg(", "ncalls(", "went(", "stored(", "exclusive(", "heldsince(", "fresh(", "typeis(", "as(", "has(", "hassuffix(", "hasprefix(", "contains(", "samearray(", "entry(", "athead(", "initer("} {
		if strings.Contains(o.Clause, w) {
			return note("not replayable: the clause speaks about events or abstractions (" + strings.TrimSuffix(w, "(") + ") that only exist in the verifier")
		}
	}
	m, err := openModel(in.File, in.Solver)
	if err != nil {
		return note("model: " + err.Error())
	}
	defer m.close()
	// shrink: gather the integer inputs, then look for a model in which they are small
	pre := &extractor{m: m, objs: map[string]bool{}, collect: true, noted: map[string]bool{}}
	for i, v := range ri.ParamVals {
		pre.param(v, ri.ParamTypes[i])
	}
	if len(pre.terms) > 0 {
		for _, bound := range []int64{16, 256, 65536} {
			if m.tryBound(pre.terms, bound) {
				doc["replay_shrunk_to"] = bound
				break
			}
		}
	}
	ex := &extractor{m: m, objs: map[string]bool{}}
	var inputs []any
	for i, v := range ri.ParamVals {
		jv, ok := ex.param(v, ri.ParamTypes[i])
		if !ok {
			return note("inputs cannot be built from the model: " + ex.fail)
		}
		inputs = append(inputs, jv)
	}
	clause := o.Clause
	if i := strings.Index(clause, "   ["); i >= 0 {
		clause = clause[:i]
	}
	model := map[string]any{"params": ri.ParamNames, "results": ri.Results, "inputs": inputs, "clause": clause,
		"requires": ri.Requires, "specs": ri.Specs, "consts": ri.Consts}
	mj, _ := json.Marshal(model)
	doc["replay_inputs"] = inputs
	tmpl, err := os.ReadFile(filepath.Join(verif, "replay", "harness.go.tmpl"))
	if err != nil {
		return note("harness: " + err.Error())
	}
	src := strings.NewReplacer("@PKG@", ri.PkgName, "@TARGET@", ri.Target, "@MODEL@", strconv.Quote(string(mj))).Replace(string(tmpl))
	tmp, err := os.MkdirTemp("", "govc-replay.")
	if err != nil {
		return note(err.Error())
	}
	defer os.RemoveAll(tmp)
	testFile := filepath.Join(tmp, "zz_verif_replay_test.go")
	os.WriteFile(testFile, []byte(src), 0o644)
	ov := map[string]any{"Replace": map[string]string{filepath.Join(ri.Repo, ri.PkgDir, "zz_verif_replay_test.go"): testFile}}
	ovb, _ := json.Marshal(ov)
	ovFile := filepath.Join(tmp, "ov.json")
	os.WriteFile(ovFile, ovb, 0o644)
	cmd := exec.Command("go", "test", "-overlay", ovFile, "-vet=off", "-count=1", "-v", "-timeout", "60s", "-run", "^TestGovcReplay$", "./"+ri.PkgDir)
	cmd.Dir = ri.Repo
	out, _ := cmd.CombinedOutput()
	text := string(out)
	var lines []string
	for _, l := range strings.Split(text, "\n") {
		if strings.Contains(l, "GOVC-REPLAY") {
			lines = append(lines, strings.TrimSpace(l))
		}
	}
	if len(lines) == 0 {
		if len(text) > 1500 {
			text = text[:1500]
		}
		return note("the replay test did not run: " + text)
	}
	doc["replay_output"] = strings.Join(lines, "\n")
	doc["replay_cmd"] = "go test -overlay <generated harness> -run TestGovcReplay ./" + ri.PkgDir
	for _, l := range lines {
		if strings.HasPrefix(l, "GOVC-REPLAY violated") || strings.HasPrefix(l, "GOVC-REPLAY panic") {
			doc["replayed"] = true
			os.WriteFile(strings.TrimSuffix(path, ".json")+"_replay_test.go.txt", []byte(src), 0o644)
			return true
		}
	}
	return note("the model did not reproduce on the real code (it lives in an abstraction of the verifier)")
}
