package main

// Counterexample replay against the real code (go test -overlay). Drivers are registered per function.

func tryReplay(prop string, o *Oblig, in *ObligInstance, path, verif string) bool {
	return false
}
