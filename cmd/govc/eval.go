package main

// Evaluation of contract expressions (Go expression syntax plus spec forms) over the symbolic state.

import (
	"fmt"
	"go/ast"
	"go/constant"
	"go/token"
	"go/types"
	"strconv"
	"strings"

	"golang.org/x/tools/go/ssa"
)

type Env struct {
	parent      *Env
	x           *Exec
	st          *State
	names       map[string]Val
	frame       *Frame
	old         *HeapView // heap at function entry / before the call
	cur         *HeapView // if set, heap reads use this view (inside old())
	pkg         *types.Package
	entryParams bool
	err         string
	inOld       bool
	loopHead     *ssa.BasicBlock // loop whose clause is being evaluated (for entry(e))
	entryCells   []Val           // inside entry(e): local cells as they were when the loop was entered
	missingEvent bool // the last evaluation failed because a clause refers to an event that did not happen
	eventFloor  int // events with a smaller sequence number are invisible (loop back-edge assertions)
	floorLoop   *ssa.BasicBlock // the loop whose current iteration eventFloor marks
}

func (x *Exec) envFor(st *State, fr *Frame) *Env {
	return &Env{x: x, st: st, names: map[string]Val{}, frame: fr, pkg: x.pkg, old: x.entry}
}

func (e *Env) fail(format string, a ...any) (Val, bool) {
	if e.err == "" {
		e.err = fmt.Sprintf(format, a...)
	}
	for p := e.parent; p != nil; p = p.parent {
		if e.missingEvent {
			p.missingEvent = true
		}
	}
	return Val{}, false
}

func (e *Env) evalBool(ex ast.Expr) (Term, bool) {
	e.err = ""
	e.missingEvent = false
	v, ok := e.eval(ex)
	if !ok {
		return tFalse, false
	}
	if v.K != KScalar || v.T.Sort != sBool {
		e.err = "expression is not boolean: " + types.ExprString(ex)
		return tFalse, false
	}
	return v.T, true
}

func (e *Env) evalInt(ex ast.Expr) (Term, bool) {
	e.err = ""
	v, ok := e.eval(ex)
	if !ok {
		return tZero, false
	}
	if v.K != KScalar || v.T.Sort != sInt {
		e.err = "expression is not an integer: " + types.ExprString(ex)
		return tZero, false
	}
	return v.T, true
}

func (e *Env) child() *Env {
	c := *e
	c.parent = e
	c.names = make(map[string]Val, len(e.names)+2)
	for k, v := range e.names {
		c.names[k] = v
	}
	return &c
}

func (e *Env) view() *HeapView { return e.cur }

func (e *Env) load(p *Ptr, t types.Type) Val {
	if e.entryCells != nil && p.Kind == PCell && p.Cell < len(e.entryCells) {
		v := e.entryCells[p.Cell]
		for _, i := range p.Path {
			if v.K != KStruct || i >= len(v.Fs) {
				return e.x.loadPtr(e.st, e.view(), p, t)
			}
			v = v.Fs[i]
		}
		return v
	}
	return e.x.loadPtr(e.st, e.view(), p, t)
}

func (e *Env) lookupIdent(name string) (Val, bool) {
	if v, ok := e.names[name]; ok {
		return v, true
	}
	switch name {
	case "nil":
		return Val{K: KNil}, true
	case "true":
		return scalar(tTrue, types.Typ[types.Bool]), true
	case "false":
		return scalar(tFalse, types.Typ[types.Bool]), true
	}
	if e.frame != nil {
		if e.entryParams || e.inOld {
			if v, ok := e.x.params[name]; ok && e.frame == e.st.frames[0] {
				return v, true
			}
		}
		// lexical scoping: a callback running on top of the frame sees its own variables first, then
		// those of the functions it is nested in
		for _, f := range e.lexicalFrames() {
			if ls := f.locals[name]; len(ls) > 0 {
				p := ls[len(ls)-1]
				if p.K != KPtr {
					return p, true // free variable bound to a value
				}
				return e.load(p.P, deref(p.Typ)), true
			}
			if v, ok := f.params[name]; ok {
				return v, true
			}
		}
	}
	// package-level constant or variable
	if e.pkg != nil {
		if obj := e.pkg.Scope().Lookup(name); obj != nil {
			return e.objVal(obj)
		}
	}
	if g := e.x.P.C.Ghosts[name]; g != nil {
		p, t, err := e.x.ghostPtr(g)
		if err != nil {
			return e.fail("ghost %s: %v", name, err)
		}
		return e.load(p, t), true
	}
	// a local of the function that has not been declared on this path: an arbitrary value
	if e.frame != nil {
		for _, b := range e.frame.fn.Blocks {
			for _, in := range b.Instrs {
				if a, ok := in.(*ssa.Alloc); ok && a.Comment == name {
					e.x.pure--
					v := e.x.freshVal(e.st, deref(a.Type()), "undeclared!"+name)
					e.x.pure++
					return v, true
				}
			}
		}
	}
	return e.fail("unknown identifier %q", name)
}

// lexicalFrames: the frame the environment was made for, preceded by the frames above it that run
// closures lexically nested in its function (innermost first).
func (e *Env) lexicalFrames() []*Frame {
	var out []*Frame
	base := -1
	for i, f := range e.st.frames {
		if f == e.frame {
			base = i
		}
	}
	if base >= 0 {
		for i := len(e.st.frames) - 1; i > base; i-- {
			f := e.st.frames[i]
			nested := false
			for p := f.fn.Parent(); p != nil; p = p.Parent() {
				if p == e.frame.fn {
					nested = true
				}
			}
			if nested {
				out = append(out, f)
			}
		}
	}
	return append(out, e.frame)
}

func (e *Env) objVal(obj types.Object) (Val, bool) {
	switch o := obj.(type) {
	case *types.Const:
		return e.constVal(o.Val(), o.Type())
	case *types.Var:
		name := o.Pkg().Path() + "." + o.Name()
		if !e.x.P.isRepoPath(o.Pkg().Path()) {
			t := o.Type()
			v := e.x.valFromLeaves(t, func(l leaf) Term { return e.x.uf("gc!"+name+l.suffix, l.sort) })
			return v, true
		}
		p := &Ptr{Kind: PObj, Base: e.x.reg.globalRef(name), Elem: o.Type()}
		return e.load(p, o.Type()), true
	}
	return e.fail("cannot use %s in a contract", obj.Name())
}

func (e *Env) constVal(cv constant.Value, t types.Type) (Val, bool) {
	switch cv.Kind() {
	case constant.Bool:
		return scalar(boolLit(constant.BoolVal(cv)), t), true
	case constant.String:
		return scalar(strLit(constant.StringVal(cv)), t), true
	case constant.Int:
		return scalar(bigLit(cv.ExactString()), t), true
	}
	return e.fail("unsupported constant kind")
}

func (e *Env) eval(ex ast.Expr) (Val, bool) {
	x := e.x
	switch n := ex.(type) {
	case *ast.ParenExpr:
		return e.eval(n.X)
	case *ast.Ident:
		return e.lookupIdent(n.Name)
	case *ast.BasicLit:
		switch n.Kind {
		case token.INT:
			v, err := strconv.ParseInt(n.Value, 0, 64)
			if err != nil {
				return e.fail("bad integer literal %s", n.Value)
			}
			return scalar(intLit(v), types.Typ[types.Int]), true
		case token.STRING:
			s, err := strconv.Unquote(n.Value)
			if err != nil {
				return e.fail("bad string literal %s", n.Value)
			}
			return scalar(strLit(s), types.Typ[types.String]), true
		case token.CHAR:
			s, err := strconv.Unquote(n.Value)
			if err != nil || len(s) == 0 {
				return e.fail("bad char literal %s", n.Value)
			}
			return scalar(intLit(int64([]rune(s)[0])), types.Typ[types.Int32]), true
		}
		return e.fail("unsupported literal %s", n.Value)
	case *ast.UnaryExpr:
		if n.Op == token.AND {
			// &x.f : the address of a field (mutexes are identified by their address)
			if sel, ok := n.X.(*ast.SelectorExpr); ok {
				base, ok := e.eval(sel.X)
				if !ok {
					return base, false
				}
				if base.K == KPtr && base.P.Kind == PObj {
					if stt, ok := structOf(base.P.Elem); ok {
						for i := 0; i < stt.NumFields(); i++ {
							if stt.Field(i).Name() == sel.Sel.Name {
								ft := stt.Field(i).Type()
								if isOpaqueStruct(ft) {
									return Val{K: KPtr, Typ: types.NewPointer(ft), P: &Ptr{Kind: PField, Base: base.P.Base, Elem: base.P.Elem, Field: i}}, true
								}
								return Val{K: KPtr, Typ: types.NewPointer(ft), P: x.fieldPtr(e.st, base.P, i)}, true
							}
						}
					}
				}
			}
			return e.fail("unsupported address expression %s", types.ExprString(ex))
		}
		v, ok := e.eval(n.X)
		if !ok {
			return v, false
		}
		switch n.Op {
		case token.NOT:
			if v.K == KScalar && v.T.Sort == sBool {
				return scalar(tNot(v.T), v.Typ), true
			}
		case token.SUB:
			if v.K == KScalar && v.T.Sort == sInt {
				return scalar(app(sInt, "-", v.T), v.Typ), true
			}
		}
		return e.fail("unsupported unary expression %s", types.ExprString(ex))
	case *ast.StarExpr:
		v, ok := e.eval(n.X)
		if !ok {
			return v, false
		}
		if v.K != KPtr {
			return e.fail("dereference of non-pointer %s", types.ExprString(n.X))
		}
		return e.load(v.P, deref(v.Typ)), true
	case *ast.BinaryExpr:
		a, ok := e.eval(n.X)
		if !ok {
			return a, false
		}
		if a.K == KScalar && ((n.Op == token.LAND && a.T.S == "false") || (n.Op == token.LOR && a.T.S == "true")) {
			return a, true // short circuit, as in Go
		}
		b, ok := e.eval(n.Y)
		if !ok {
			return b, false
		}
		switch n.Op {
		case token.LAND:
			return scalar(tAnd(a.T, b.T), types.Typ[types.Bool]), true
		case token.LOR:
			return scalar(tOr(a.T, b.T), types.Typ[types.Bool]), true
		}
		rt := a.Typ
		switch n.Op {
		case token.EQL, token.NEQ, token.LSS, token.LEQ, token.GTR, token.GEQ:
			rt = types.Typ[types.Bool]
		}
		if rt == nil {
			rt = b.Typ
		}
		x.pure++
		r := x.binop(e.st, n.Op, a, b, a.Typ, rt)
		x.pure--
		return r, true
	case *ast.SelectorExpr:
		return e.evalSelector(n)
	case *ast.IndexExpr:
		xv, ok := e.eval(n.X)
		if !ok {
			return xv, false
		}
		iv, ok := e.eval(n.Index)
		if !ok {
			return iv, false
		}
		switch xv.K {
		case KSlice:
			st, ok := under(xv.Typ).(*types.Slice)
			if !ok {
				return e.fail("indexing a slice of unknown type: %s", types.ExprString(n.X))
			}
			p := x.elemPtr(xv.Fs[0].T, x.idx(xv.Fs[1].T, iv.T), st.Elem())
			return e.load(p, st.Elem()), true
		case KScalar:
			if mt, ok := under(xv.Typ).(*types.Map); ok {
				// as in Go, an absent key reads as the zero value
				v, present := x.mapGet(e.st, e.view(), xv.T, mt, x.keyTerm(iv))
				return x.iteVal(present, v, x.zeroVal(mt.Elem()), mt.Elem()), true
			}
		}
		return e.fail("unsupported index expression %s", types.ExprString(ex))
	case *ast.SliceExpr:
		xv, ok := e.eval(n.X)
		if !ok {
			return xv, false
		}
		var lo, hi *Term
		if n.Low != nil {
			v, ok := e.eval(n.Low)
			if !ok {
				return v, false
			}
			lo = &v.T
		}
		if n.High != nil {
			v, ok := e.eval(n.High)
			if !ok {
				return v, false
			}
			hi = &v.T
		}
		if xv.Typ == nil {
			return e.fail("slice expression on untyped value")
		}
		return x.sliceVal(e.st, nil, xv, xv.Typ, xv.Typ, lo, hi, nil, nil), true
	case *ast.CallExpr:
		return e.evalCall(n)
	}
	return e.fail("unsupported expression %s", types.ExprString(ex))
}

func (e *Env) evalSelector(n *ast.SelectorExpr) (Val, bool) {
	x := e.x
	// package-qualified name?
	if id, ok := n.X.(*ast.Ident); ok {
		if _, bound := e.names[id.Name]; !bound && !e.isVariable(id.Name) {
			if p := x.P.findPackage(id.Name, e.pkg); p != nil {
				obj := p.Scope().Lookup(n.Sel.Name)
				if obj == nil {
					return e.fail("%s.%s not found", id.Name, n.Sel.Name)
				}
				return e.objVal(obj)
			}
		}
	}
	v, ok := e.eval(n.X)
	if !ok {
		return v, false
	}
	return e.fieldOf(v, n.Sel.Name, types.ExprString(n))
}

func (e *Env) isVariable(name string) bool {
	if e.frame == nil {
		return false
	}
	for _, f := range e.lexicalFrames() {
		if len(f.locals[name]) > 0 || hasParam(f, name) {
			return true
		}
	}
	return false
}

func hasParam(fr *Frame, name string) bool {
	_, ok := fr.params[name]
	return ok
}

func (e *Env) fieldOf(v Val, name, src string) (Val, bool) {
	x := e.x
	if v.K == KScalar && v.Typ != nil && isWrapper(v.Typ) {
		st := types.Unalias(v.Typ).(*types.Named).Underlying().(*types.Struct)
		if st.Field(0).Name() == name {
			v.Typ = st.Field(0).Type()
			return v, true
		}
	}
	switch v.K {
	case KPtr:
		if v.P.Kind == PCell {
			sv := e.load(v.P, deref(v.Typ))
			return e.fieldOf(sv, name, src)
		}
		stt, ok := structOf(v.P.Elem)
		if !ok || v.P.Kind != PObj {
			return e.fail("field %s of non-struct pointer in %s", name, src)
		}
		for i := 0; i < stt.NumFields(); i++ {
			f := stt.Field(i)
			if f.Name() == name {
				fp := x.fieldPtr(e.st, v.P, i)
				if _, isStruct := structOf(f.Type()); isStruct {
					// pointer to the embedded struct; further selection continues through it
					return Val{K: KPtr, Typ: types.NewPointer(f.Type()), P: fp}, true
				}
				return e.load(fp, f.Type()), true
			}
		}
		// promoted fields through embedded structs
		for i := 0; i < stt.NumFields(); i++ {
			f := stt.Field(i)
			if f.Embedded() {
				if _, isStruct := structOf(deref(f.Type())); isStruct {
					inner, ok := e.fieldOf(v, f.Name(), src)
					if ok {
						if r, ok := e.fieldOf(inner, name, src); ok {
							return r, true
						}
						e.err = ""
					}
				}
			}
		}
		return e.fail("no field %s in %s (%s)", name, typeName(v.P.Elem), src)
	case KStruct:
		stt, ok := structOf(v.Typ)
		if !ok {
			return e.fail("field of unknown struct in %s", src)
		}
		for i := 0; i < stt.NumFields(); i++ {
			if stt.Field(i).Name() == name && i < len(v.Fs) {
				return v.Fs[i], true
			}
		}
	}
	return e.fail("cannot select %s in %s", name, src)
}

func (e *Env) quant(kind string, n *ast.CallExpr) (Val, bool) {
	// forall(x, lo, hi, P) | forall(x, P)
	if len(n.Args) != 4 && len(n.Args) != 2 {
		return e.fail("%s needs (var, lo, hi, body) or (var, body)", kind)
	}
	id, ok := n.Args[0].(*ast.Ident)
	if !ok {
		return e.fail("%s: first argument must be a variable name", kind)
	}
	e.x.reg.fresh++
	bv := Term{sym(fmt.Sprintf("%s!q%d", id.Name, e.x.reg.fresh)), sInt}
	c := e.child()
	e.x.pure++
	defer func() { e.x.pure-- }()
	bodyEx := n.Args[len(n.Args)-1]
	// If the body reads s[v] for a slice s that does not depend on v, quantify over the
	// absolute position p = off(s)+v instead: the element read becomes select(A, p), a
	// pattern that matches every read of A (no arithmetic inside the trigger).
	kv := bv
	if off, ok := e.directIndexOffset(bodyEx, id.Name); ok && off.S != "0" {
		kv = app(sInt, "-", bv, off)
	}
	c.names[id.Name] = scalar(kv, types.Typ[types.Int64])
	var rng Term = tTrue
	if len(n.Args) == 4 {
		lo, ok := e.eval(n.Args[1])
		if !ok {
			return lo, false
		}
		hi, ok := e.eval(n.Args[2])
		if !ok {
			return hi, false
		}
		rng = tAnd(app(sBool, "<=", lo.T, kv), app(sBool, "<", kv, hi.T))
	}
	body, ok := c.eval(bodyEx)
	if !ok {
		e.err = c.err
		return body, false
	}
	if body.K != KScalar || body.T.Sort != sBool {
		return e.fail("%s body is not boolean", kind)
	}
	var t Term
	if kind == "forall" {
		t = Term{"(forall ((" + bv.S + " Int)) " + tImplies(rng, body.T).S + ")", sBool}
	} else {
		t = Term{"(exists ((" + bv.S + " Int)) " + tAnd(rng, body.T).S + ")", sBool}
	}
	return scalar(t, types.Typ[types.Bool]), true
}

// directIndexOffset finds the first s[v] in body (v the bound variable, s independent of v and of
// any inner bound variable) and returns the offset term of s.
func (e *Env) directIndexOffset(body ast.Expr, v string) (Term, bool) {
	var found *ast.IndexExpr
	ast.Inspect(body, func(n ast.Node) bool {
		if found != nil {
			return false
		}
		ix, ok := n.(*ast.IndexExpr)
		if !ok {
			return true
		}
		if id, ok := ix.Index.(*ast.Ident); ok && id.Name == v {
			uses := false
			ast.Inspect(ix.X, func(m ast.Node) bool {
				if mid, ok := m.(*ast.Ident); ok && mid.Name == v {
					uses = true
				}
				return !uses
			})
			if !uses {
				found = ix
				return false
			}
		}
		return true
	})
	if found == nil {
		return tZero, false
	}
	c := e.child()
	sv, ok := c.eval(found.X)
	if !ok || sv.K != KSlice {
		e.err = ""
		return tZero, false
	}
	return sv.Fs[1].T, true
}

func (e *Env) evalArgs(args []ast.Expr) ([]Val, bool) {
	var out []Val
	for _, a := range args {
		v, ok := e.eval(a)
		if !ok {
			return nil, false
		}
		out = append(out, v)
	}
	return out, true
}

func patText(ex ast.Expr) string {
	return strings.ReplaceAll(types.ExprString(ex), " ", "")
}

func (e *Env) matchEvents(kind string, ex ast.Expr) []Event {
	pat := CallPattern{Kind: kind, Callee: patText(ex)}
	sp := ""
	if e.x.fc != nil {
		sp = shortPkg(e.x.fc.PkgPath)
	}
	var out []Event
	for _, ev := range e.st.events {
		if ev.Seq < e.eventFloor {
			continue
		}
		if patternMatches(pat, ev.Kind, ev.Callee, sp) || (ev.Alias != "" && patternMatches(pat, ev.Kind, ev.Alias, sp)) {
			out = append(out, ev)
		}
	}
	return out
}

// maybeEvent: may an earlier iteration of a loop entered on this path have made a matching call?
// (the iterations before the current one are summarized at the loop head; their events are not on the path)
func (e *Env) maybeEvent(kind string, ex ast.Expr) bool { return e.maybeEventOf(kind, ex, -1) != nil }

// maybeEventOf: such a call site of a loop entered after event number `after` on this path.
func (e *Env) maybeEventOf(kind string, ex ast.Expr, after int) *Event {
	pat := CallPattern{Kind: kind, Callee: patText(ex)}
	sp := ""
	if e.x.fc != nil {
		sp = shortPkg(e.x.fc.PkgPath)
	}
	for _, ev := range e.st.maybe {
		if ev.Floor < e.eventFloor || ev.Floor <= after {
			continue
		}
		if e.floorLoop != nil && ev.Head == e.floorLoop && ev.Floor == e.eventFloor {
			continue // the earlier iterations of the loop whose current iteration is looked at
		}
		if patternMatches(pat, ev.Kind, ev.Callee, sp) || (ev.Alias != "" && patternMatches(pat, ev.Kind, ev.Alias, sp)) {
			ev := ev
			return &ev
		}
	}
	return nil
}

func (e *Env) evalCall(n *ast.CallExpr) (Val, bool) {
	x := e.x
	boolT := types.Typ[types.Bool]
	if id, ok := n.Fun.(*ast.Ident); ok {
		switch id.Name {
		case "implies", "iff":
			if len(n.Args) != 2 {
				return e.fail("%s needs two arguments", id.Name)
			}
			a, ok := e.eval(n.Args[0])
			if !ok {
				return a, false
			}
			if id.Name == "implies" && a.K == KScalar && a.T.S == "false" {
				// short circuit: the consequent may mention events that do not exist on this path
				return scalar(tTrue, boolT), true
			}
			b, ok := e.eval(n.Args[1])
			if !ok {
				return b, false
			}
			if a.T.Sort != sBool || b.T.Sort != sBool {
				return e.fail("%s on non-boolean operands: %s", id.Name, types.ExprString(n))
			}
			if id.Name == "iff" {
				return scalar(tEq(a.T, b.T), boolT), true
			}
			return scalar(tImplies(a.T, b.T), boolT), true
		case "ite":
			if len(n.Args) != 3 {
				return e.fail("ite needs three arguments")
			}
			c, ok := e.eval(n.Args[0])
			if !ok {
				return c, false
			}
			a, ok := e.eval(n.Args[1])
			if !ok {
				return a, false
			}
			b, ok := e.eval(n.Args[2])
			if !ok {
				return b, false
			}
			if a.K == KScalar && b.K == KScalar {
				return scalar(tIte(c.T, a.T, coerce(b.T, a.T.Sort)), a.Typ), true
			}
			if a.Typ != nil {
				return x.iteVal(c.T, a, b, a.Typ), true
			}
			return e.fail("ite on untyped composite values")
		case "forall", "exists":
			return e.quant(id.Name, n)
		case "old":
			if len(n.Args) != 1 {
				return e.fail("old needs one argument")
			}
			if e.old == nil {
				return e.eval(n.Args[0])
			}
			c := e.child()
			c.cur = e.old
			c.inOld = true
			v, ok := c.eval(n.Args[0])
			if !ok {
				e.err = c.err
			}
			return v, ok
		case "initer":
			// initer(e): e with only the events of the current iteration of the innermost enclosing
			// loop visible (all events when not inside a loop)
			if len(n.Args) != 1 {
				return e.fail("initer needs one argument")
			}
			c := e.child()
			if e.frame != nil {
				li := e.x.loopsOf(e.frame.fn)
				for head, mark := range e.frame.loopMark {
					if body := li.body[head]; body != nil && (body[e.frame.block] || head == e.frame.block) && mark > c.eventFloor {
						c.eventFloor = mark
						c.floorLoop = head
					}
				}
			}
			v, ok := c.eval(n.Args[0])
			if !ok {
				e.err = c.err
			}
			return v, ok
		case "entry", "athead":
			// entry(e): the value of e when the loop was entered from outside
			// athead(e): the value of e at the head of the current iteration
			if len(n.Args) != 1 {
				return e.fail("%s needs one argument", id.Name)
			}
			if e.loopHead == nil || e.frame == nil || e.frame.loopEntry[e.loopHead] == nil {
				return e.fail("%s(...) is only meaningful in loop clauses", id.Name)
			}
			snap := e.frame.loopEntry[e.loopHead]
			if id.Name == "athead" {
				snap = e.frame.loopHeadSnap[e.loopHead]
				if snap == nil {
					return e.fail("athead(...): no iteration in progress")
				}
			}
			c := e.child()
			c.cur = snap.view
			c.entryCells = snap.cells
			v, ok := c.eval(n.Args[0])
			if !ok {
				e.err = c.err
			}
			return v, ok
		case "samearray":
			if len(n.Args) != 2 {
				return e.fail("samearray needs two slices")
			}
			a, ok := e.eval(n.Args[0])
			if !ok {
				return a, false
			}
			b, ok := e.eval(n.Args[1])
			if !ok {
				return b, false
			}
			if a.K != KSlice || b.K != KSlice {
				return e.fail("samearray on non-slices")
			}
			return scalar(tAnd(tEq(a.Fs[0].T, b.Fs[0].T), tNot(tEq(a.Fs[0].T, tZero))), boolT), true
		case "unchanged":
			if len(n.Args) != 1 {
				return e.fail("unchanged needs one argument")
			}
			a, ok := e.eval(n.Args[0])
			if !ok {
				return a, false
			}
			c := e.child()
			c.cur = e.old
			c.inOld = true
			b, ok := c.eval(n.Args[0])
			if !ok {
				e.err = c.err
				return b, false
			}
			return scalar(e.deepEq(a, b), boolT), true
		case "fresh":
			a, ok := e.eval(n.Args[0])
			if !ok {
				return a, false
			}
			w := x.entryW
			if e.old != nil {
				w = e.old.water
			}
			return scalar(app(sBool, ">=", x.ptrTerm(a), w), boolT), true
		case "len":
			a, ok := e.eval(n.Args[0])
			if !ok {
				return a, false
			}
			x.pure++
			x.lenView = e.view()
			t := x.lenOf(e.st, a, a.Typ)
			x.lenView = nil
			x.pure--
			return scalar(t, types.Typ[types.Int]), true
		case "cap":
			a, ok := e.eval(n.Args[0])
			if !ok {
				return a, false
			}
			if a.K == KSlice {
				return scalar(a.Fs[3].T, types.Typ[types.Int]), true
			}
			return e.fail("cap of non-slice")
		case "min", "max":
			vs, ok := e.evalArgs(n.Args)
			if !ok || len(vs) < 2 {
				return Val{}, false
			}
			r := vs[0].T
			for _, v := range vs[1:] {
				op := "<="
				if id.Name == "max" {
					op = ">="
				}
				r = tIte(app(sBool, op, r, v.T), r, v.T)
			}
			return scalar(r, vs[0].Typ), true
		case "int", "int64", "int32", "uint64", "uint32", "uint", "uint8", "byte":
			a, ok := e.eval(n.Args[0])
			if !ok {
				return a, false
			}
			return scalar(a.T, types.Universe.Lookup(id.Name).Type()), true
		case "typeis":
			if len(n.Args) != 2 {
				return e.fail("typeis needs (value, type)")
			}
			a, ok := e.eval(n.Args[0])
			if !ok {
				return a, false
			}
			if a.K != KIface {
				return e.fail("typeis on a non-interface value")
			}
			t, err := x.P.resolveType(n.Args[1], e.pkg)
			if err != nil {
				return e.fail("typeis: %v", err)
			}
			if it, ok := under(t).(*types.Interface); ok {
				return scalar(x.implementsTerm(a.Fs[0].T, it), boolT), true
			}
			return scalar(tEq(a.Fs[0].T, intLit(int64(x.reg.typeID(t)))), boolT), true
		case "as":
			// as(value, *T): the payload of an interface value as a pointer of type *T
			if len(n.Args) != 2 {
				return e.fail("as needs (value, type)")
			}
			a, ok := e.eval(n.Args[0])
			if !ok {
				return a, false
			}
			t, err := x.P.resolveType(n.Args[1], e.pkg)
			if err != nil {
				return e.fail("as: %v", err)
			}
			if a.K != KIface {
				return e.fail("as on a non-interface value")
			}
			pt, ok := under(t).(*types.Pointer)
			if !ok {
				// a boxed scalar: the value that was put into the interface on this path
				if o, found := x.unboxed[a.Fs[0].T.S+"|"+a.Fs[1].T.S]; found && o.K == KScalar && types.Identical(o.Typ, t) {
					return o, true
				}
				if scalarSort(t) == sInt {
					return scalar(a.Fs[1].T, t), true
				}
				return e.fail("as: the boxed value is not known on this path (target %s)", t)
			}
			return Val{K: KPtr, Typ: t, P: &Ptr{Kind: PObj, Base: a.Fs[1].T, Elem: pt.Elem()}}, true
		case "str":
			// str(b): the string made of the bytes of slice b
			a, ok := e.eval(n.Args[0])
			if !ok {
				return a, false
			}
			if a.K == KScalar && a.T.Sort == sStr {
				return a, true
			}
			if a.K != KSlice {
				return e.fail("str needs a byte slice")
			}
			return scalar(x.uf("bytes2str", sStr, a.Fs[0].T, a.Fs[1].T, a.Fs[2].T), types.Typ[types.String]), true
		case "itoa":
			a, ok := e.eval(n.Args[0])
			if !ok {
				return a, false
			}
			return scalar(x.uf("itoa", sStr, a.T), types.Typ[types.String]), true
		case "indexof":
			if len(n.Args) != 2 {
				return e.fail("indexof needs (s, sub)")
			}
			a, ok := e.eval(n.Args[0])
			if !ok {
				return a, false
			}
			b, ok := e.eval(n.Args[1])
			if !ok {
				return b, false
			}
			return scalar(app(sInt, "str.indexof", a.T, b.T, tZero), types.Typ[types.Int]), true
		case "substr":
			if len(n.Args) != 3 {
				return e.fail("substr needs (s, from, to)")
			}
			vs, ok := e.evalArgs(n.Args)
			if !ok {
				return Val{}, false
			}
			return scalar(app(sStr, "str.substr", vs[0].T, vs[1].T, app(sInt, "-", vs[2].T, vs[1].T)), types.Typ[types.String]), true
		case "hassuffix", "hasprefix", "contains":
			// string theory: hassuffix(s, suffix), hasprefix(s, prefix), contains(s, sub)
			if len(n.Args) != 2 {
				return e.fail("%s needs two strings", id.Name)
			}
			a, ok := e.eval(n.Args[0])
			if !ok {
				return a, false
			}
			b, ok := e.eval(n.Args[1])
			if !ok {
				return b, false
			}
			if a.T.Sort != sStr || b.T.Sort != sStr {
				return e.fail("%s on non-string operands", id.Name)
			}
			switch id.Name {
			case "hassuffix":
				return scalar(app(sBool, "str.suffixof", b.T, a.T), boolT), true
			case "hasprefix":
				return scalar(app(sBool, "str.prefixof", b.T, a.T), boolT), true
			}
			return scalar(app(sBool, "str.contains", a.T, b.T), boolT), true
		case "obj":
			// obj(r, *T): the object with reference r viewed as a *T (to quantify over all objects of a type)
			if len(n.Args) != 2 {
				return e.fail("obj needs (reference, *T)")
			}
			r, ok := e.eval(n.Args[0])
			if !ok {
				return r, false
			}
			t, err := x.P.resolveType(n.Args[1], e.pkg)
			if err != nil {
				return e.fail("obj: %v", err)
			}
			pt, isPtr := under(t).(*types.Pointer)
			if !isPtr || r.K != KScalar || r.T.Sort != sInt {
				return e.fail("obj needs an integer reference and a pointer type")
			}
			return Val{K: KPtr, Typ: t, P: &Ptr{Kind: PObj, Base: r.T, Elem: pt.Elem()}}, true
		case "inside":
			// inside(k): the path is currently inside closure $k of the function under verification
			if len(n.Args) != 1 {
				return e.fail("inside needs a closure suffix such as $1")
			}
			suffix := "$" + patText(n.Args[0])
			in := false
			root := e.st.frames[0].fn.String()
			for _, f := range e.st.frames[1:] {
				if f.fn.String() == root+suffix {
					in = true
				}
			}
			return scalar(boolLit(in), boolT), true
		case "has":
			// has(m, k): key k is present in map m
			if len(n.Args) != 2 {
				return e.fail("has needs (map, key)")
			}
			m, ok := e.eval(n.Args[0])
			if !ok {
				return m, false
			}
			k, ok := e.eval(n.Args[1])
			if !ok {
				return k, false
			}
			mt, isMap := under(m.Typ).(*types.Map)
			if m.Typ == nil || !isMap {
				return e.fail("has on a non-map value: %s", types.ExprString(n.Args[0]))
			}
			_, present := x.mapGet(e.st, e.view(), m.T, mt, x.keyTerm(k))
			return scalar(present, boolT), true
		case "exclusive", "shared":
			// exclusive(l): on this path the last lock operation on mutex l is Lock (shared: RLock or Lock)
			if len(n.Args) != 1 {
				return e.fail("%s needs a mutex", id.Name)
			}
			l, ok := e.eval(n.Args[0])
			if !ok {
				return l, false
			}
			return scalar(boolLit(e.lockHeld(l, id.Name == "shared", 0)), boolT), true
		case "heldsince":
			// heldsince(l, callee): l has been held exclusively, without interruption, since before the last call of callee
			if len(n.Args) != 2 {
				return e.fail("heldsince needs (mutex, callee)")
			}
			l, ok := e.eval(n.Args[0])
			if !ok {
				return l, false
			}
			evs := e.matchEvents("call", n.Args[1])
			if len(evs) == 0 {
				return scalar(tFalse, boolT), true
			}
			return scalar(boolLit(e.lockHeld(l, false, evs[len(evs)-1].Seq)), boolT), true
		case "called", "went", "deferred", "stored":
			kind := map[string]string{"called": "call", "went": "go", "deferred": "defer", "stored": "store"}[id.Name]
			if len(e.matchEvents(kind, n.Args[0])) == 0 && kind != "store" && e.maybeEvent(kind, n.Args[0]) {
				return scalar(x.fresh("maybe!"+id.Name, sBool), boolT), true
			}
			return scalar(boolLit(len(e.matchEvents(kind, n.Args[0])) > 0), boolT), true
		case "ncalls":
			if e.maybeEvent("call", n.Args[0]) {
				more := x.fresh("maybe!ncalls", sInt)
				x.assume(app(sBool, "<=", tZero, more))
				return scalar(app(sInt, "+", intLit(int64(len(e.matchEvents("call", n.Args[0])))), more), types.Typ[types.Int]), true
			}
			return scalar(intLit(int64(len(e.matchEvents("call", n.Args[0])))), types.Typ[types.Int]), true
		case "nstores":
			return scalar(intLit(int64(len(e.matchEvents("store", n.Args[0])))), types.Typ[types.Int]), true
		case "lastret", "lastarg", "lastgoarg", "laststored", "prevret", "prevarg":
			// prevret(callee, j, i): result i of the j-th call before the last one (j = 0: the last call)
			kindOf := "call"
			switch id.Name {
			case "lastgoarg":
				kindOf = "go"
			case "laststored":
				kindOf = "store"
			}
			evs := e.matchEvents(kindOf, n.Args[0])
			back := 0
			rest := n.Args[1:]
			if id.Name == "prevret" || id.Name == "prevarg" {
				if len(rest) == 0 {
					return e.fail("%s needs (callee, j, i)", id.Name)
				}
				jv, ok := e.eval(rest[0])
				if !ok || !isNumLit(jv.T.S) {
					return e.fail("%s: j must be a literal", id.Name)
				}
				back, _ = strconv.Atoi(jv.T.S)
				rest = rest[1:]
			}
			{
				// the call asked for may have been made by an earlier iteration of a loop entered after
				// the calls that are on the path: its arguments and results are unknown then
				lastSeq := -1
				if len(evs) > 0 && back == 0 {
					lastSeq = evs[len(evs)-1].Seq
				}
				if mev := e.maybeEventOf(kindOf, n.Args[0], lastSeq); mev != nil && mev.CC != nil {
					idx := 0
					if len(rest) > 0 {
						iv, ok := e.eval(rest[0])
						if !ok || !isNumLit(iv.T.S) {
							return e.fail("%s: index must be a literal", id.Name)
						}
						idx, _ = strconv.Atoi(iv.T.S)
					}
					var typ types.Type
					if id.Name == "lastret" || id.Name == "prevret" {
						if res := mev.CC.Signature().Results(); idx < res.Len() {
							typ = res.At(idx).Type()
						}
					} else {
						var ts []types.Type
						if mev.CC.IsInvoke() {
							ts = append(ts, mev.CC.Value.Type())
						}
						for _, a := range mev.CC.Args {
							ts = append(ts, a.Type())
						}
						if idx < len(ts) {
							typ = ts[idx]
						}
					}
					if typ == nil {
						return e.fail("%s: index %d out of range for %s", id.Name, idx, mev.Callee)
					}
					x.pure++
					v := x.freshVal(e.st, typ, "maybe!"+id.Name)
					x.pure--
					return v, true
				}
			}
			if len(evs) <= back {
				e.missingEvent = true
				return e.fail("%s: no such call of %s on this path", id.Name, patText(n.Args[0]))
			}
			ev := evs[len(evs)-1-back]
			idx := 0
			if len(rest) > 0 {
				iv, ok := e.eval(rest[0])
				if !ok || !isNumLit(iv.T.S) {
					return e.fail("%s: index must be a literal", id.Name)
				}
				idx, _ = strconv.Atoi(iv.T.S)
			}
			src := ev.Rets
			if id.Name != "lastret" && id.Name != "prevret" {
				src = ev.Args
			}
			if idx >= len(src) {
				return e.fail("%s: index %d out of range for %s", id.Name, idx, ev.Callee)
			}
			return src[idx], true
		}
		if sf := x.P.C.Specs[id.Name]; sf != nil {
			args, ok := e.evalArgs(n.Args)
			if !ok {
				return Val{}, false
			}
			return e.callSpec(sf, args)
		}
		if e.pkg != nil {
			if f, ok := e.pkg.Scope().Lookup(id.Name).(*types.Func); ok {
				return e.purePkgCall(f, n.Args)
			}
		}
		return e.fail("unknown function %s in contract", id.Name)
	}
	// pkg.F(args): a library or repository function declared pure
	if sel, ok := n.Fun.(*ast.SelectorExpr); ok {
		if id, ok := sel.X.(*ast.Ident); ok && !e.isVariable(id.Name) {
			if _, bound := e.names[id.Name]; !bound {
				if p := x.P.findPackage(id.Name, e.pkg); p != nil {
					if f, ok := p.Scope().Lookup(sel.Sel.Name).(*types.Func); ok {
						return e.purePkgCall(f, n.Args)
					}
				}
			}
		}
	}
	// method call on a value: pure methods only
	if sel, ok := n.Fun.(*ast.SelectorExpr); ok {
		recv, ok := e.eval(sel.X)
		if !ok {
			return recv, false
		}
		args, ok := e.evalArgs(n.Args)
		if !ok {
			return Val{}, false
		}
		return e.pureMethod(recv, sel.Sel.Name, args, types.ExprString(n))
	}
	return e.fail("unsupported call %s", types.ExprString(n))
}

// purePkgCall: F(args) for a package-level function declared pure (an uninterpreted function of its arguments,
// the same symbol the engine uses for calls of F in the code).
func (e *Env) purePkgCall(f *types.Func, argExprs []ast.Expr) (Val, bool) {
	x := e.x
	key := normName(x.P.funcName(f))
	fc := x.P.C.Funcs[key]
	if fc == nil || !fc.Pure {
		return e.fail("function %s is not declared pure", key)
	}
	args, ok := e.evalArgs(argExprs)
	if !ok {
		return Val{}, false
	}
	sig := f.Type().(*types.Signature)
	if sig.Results().Len() != 1 || leavesOf(sig.Results().At(0).Type()) == nil {
		return e.fail("pure function %s must have one scalar result", key)
	}
	var argTerms []Term
	for _, a := range args {
		argTerms = append(argTerms, x.flatTerms(a)...)
	}
	if !fc.Stable {
		argTerms = append(argTerms, x.heapStamp(e.st))
	}
	rt := sig.Results().At(0).Type()
	return x.valFromLeaves(rt, func(l leaf) Term {
		return x.uf(fmt.Sprintf("pure!%s!0%s", key, l.suffix), l.sort, argTerms...)
	}), true
}

// lockHeld scans the events of the path backwards for operations on mutex l. It answers whether the last
// operation is an acquisition (exclusive unless shared is allowed) and, if before > 0, whether that
// acquisition happened before event number `before` (no release in between).
func (e *Env) lockHeld(l Val, shared bool, before int) bool {
	lt := e.x.ptrTerm(l).S
	for i := len(e.st.events) - 1; i >= 0; i-- {
		ev := e.st.events[i]
		if ev.Kind != "call" || len(ev.Args) == 0 || !strings.HasPrefix(ev.Callee, "(*sync.") {
			continue
		}
		if e.x.ptrTerm(ev.Args[0]).S != lt {
			continue
		}
		switch {
		case strings.HasSuffix(ev.Callee, ".Lock"):
			return before == 0 || ev.Seq < before
		case strings.HasSuffix(ev.Callee, ".RLock"):
			return shared && (before == 0 || ev.Seq < before)
		case strings.HasSuffix(ev.Callee, ".Unlock"), strings.HasSuffix(ev.Callee, ".RUnlock"):
			return false
		}
	}
	return false
}

// pureMethod: x.M(args) for methods declared pure (uninterpreted function of receiver and arguments).
func (e *Env) pureMethod(recv Val, name string, args []Val, src string) (Val, bool) {
	x := e.x
	if recv.Typ == nil {
		return e.fail("method call on untyped value: %s", src)
	}
	var key string
	var sig *types.Signature
	t := recv.Typ
	if it, ok := under(t).(*types.Interface); ok {
		for i := 0; i < it.NumMethods(); i++ {
			m := it.Method(i)
			if m.Name() == name {
				sig = m.Type().(*types.Signature)
				if sig.Recv() != nil {
					key = normName(typeName(sig.Recv().Type())) + "." + name
				}
			}
		}
	} else {
		ms := types.NewMethodSet(t)
		for i := 0; i < ms.Len(); i++ {
			if ms.At(i).Obj().Name() == name {
				f := ms.At(i).Obj().(*types.Func)
				sig = f.Type().(*types.Signature)
				key = normName(x.P.funcName(f))
			}
		}
	}
	if sig == nil {
		return e.fail("no method %s on %s (%s)", name, typeName(t), src)
	}
	fc := x.P.C.Funcs[key]
	if fc == nil || !fc.Pure {
		return e.fail("method %s is not declared pure (contract key %s) in %s", name, key, src)
	}
	if sig.Results().Len() != 1 {
		return e.fail("pure method %s must have one result", name)
	}
	rt := sig.Results().At(0).Type()
	argTerms := x.flatTerms(recv)
	for _, a := range args {
		argTerms = append(argTerms, x.flatTerms(a)...)
	}
	if !fc.Stable {
		argTerms = append(argTerms, x.heapStamp(e.st))
	}
	if leavesOf(rt) == nil {
		return e.fail("pure method %s has unsupported result type", name)
	}
	v := x.valFromLeaves(rt, func(l leaf) Term {
		return x.uf(fmt.Sprintf("pure!%s!0%s", key, l.suffix), l.sort, argTerms...)
	})
	return v, true
}

func (e *Env) deepEq(a, b Val) Term {
	if a.K == KSlice && b.K == KSlice {
		return tAnd(tEq(a.Fs[0].T, b.Fs[0].T), tEq(a.Fs[1].T, b.Fs[1].T), tEq(a.Fs[2].T, b.Fs[2].T), tEq(a.Fs[3].T, b.Fs[3].T))
	}
	return e.x.valEq(a, b)
}

// ---------------------------------------------------------------------------
// Spec functions

func (e *Env) callSpec(sf *SpecFunc, args []Val) (Val, bool) {
	x := e.x
	if len(args) != len(sf.Params) {
		return e.fail("spec %s: want %d arguments, got %d", sf.Name, len(sf.Params), len(args))
	}
	pkg := x.P.pkgOf(sf.PkgPath)
	if sf.Body == nil {
		// uninterpreted
		rt, err := x.P.resolveType(sf.Ret, pkg)
		if err != nil {
			return e.fail("spec %s: %v", sf.Name, err)
		}
		rs := scalarSort(rt)
		if rs == "" {
			return e.fail("spec %s: uninterpreted spec functions need a scalar result", sf.Name)
		}
		var ts []Term
		for i, a := range args {
			pt, err := x.P.resolveType(sf.Params[i].Type, pkg)
			if err != nil {
				return e.fail("spec %s: %v", sf.Name, err)
			}
			if a.K == KNil {
				a = x.zeroVal(pt)
			}
			ts = append(ts, x.flatTerms(a)...)
		}
		return scalar(x.uf("uspec!"+sf.Name, rs, ts...), rt), true
	}
	if !sf.Rec {
		c := &Env{x: x, st: e.st, names: map[string]Val{}, old: e.old, cur: e.cur, pkg: pkg, inOld: e.inOld}
		for i, p := range sf.Params {
			pt, err := x.P.resolveType(p.Type, pkg)
			if err != nil {
				return e.fail("spec %s: %v", sf.Name, err)
			}
			a := args[i]
			if a.K == KNil {
				a = x.zeroVal(pt)
			}
			if a.Typ == nil || a.K == KScalar {
				a.Typ = pt
			}
			c.names[p.Name] = a
		}
		x.pure++
		v, ok := c.eval(sf.Body)
		x.pure--
		if !ok {
			e.err = "in spec " + sf.Name + ": " + c.err
		}
		return v, ok
	}
	keys, retSort, ok := x.specDef(sf)
	if !ok {
		return e.fail("spec %s: %s", sf.Name, x.specErr)
	}
	var ts []Term
	for _, k := range keys {
		parts := strings.SplitN(k, "\x00", 2)
		ts = append(ts, x.heapTerm(e.view(), e.st, parts[0], parts[1]).T)
	}
	for i, a := range args {
		pt, _ := x.P.resolveType(sf.Params[i].Type, pkg)
		if a.K == KNil {
			a = x.zeroVal(pt)
		}
		ts = append(ts, x.flatTerms(a)...)
	}
	rt, _ := x.P.resolveType(sf.Ret, pkg)
	return scalar(app(retSort, sym("spec!"+sf.Name), ts...), rt), true
}

// specDef (re)declares a recursive spec function in the live solver scope.
func (x *Exec) specDef(sf *SpecFunc) (keys []string, retSort string, ok bool) {
	name := sym("spec!" + sf.Name)
	pkg := x.P.pkgOf(sf.PkgPath)
	rt, err := x.P.resolveType(sf.Ret, pkg)
	if err != nil {
		x.specErr = err.Error()
		return nil, "", false
	}
	retSort = scalarSort(rt)
	if retSort == "" {
		x.specErr = "result type must be scalar"
		return nil, "", false
	}
	if _, live := x.declared["specdef!"+sf.Name]; live {
		return x.specDefs[sf.Name], retSort, true
	}
	var paramDecl []string
	names := map[string]Val{}
	for _, p := range sf.Params {
		pt, err := x.P.resolveType(p.Type, pkg)
		if err != nil {
			x.specErr = err.Error()
			return nil, "", false
		}
		if leavesOf(pt) == nil {
			x.specErr = "parameter " + p.Name + " has unsupported type"
			return nil, "", false
		}
		v := x.valFromLeaves(pt, func(l leaf) Term {
			s := sym("sp!" + p.Name + l.suffix)
			paramDecl = append(paramDecl, "("+s+" "+l.sort+")")
			return Term{s, l.sort}
		})
		v.Typ = pt
		names[p.Name] = v
	}
	// the key list must be stable: iterate until no new heap key appears
	keys = append([]string(nil), x.specDefs[sf.Name]...)
	var body Val
	for iter := 0; iter < 4; iter++ {
		kcopy := append([]string(nil), keys...)
		st := &State{heap: map[string]heapVer{}, noHeap: true, specKey: &kcopy, water: Term{"0", sInt}}
		x.specDefs[sf.Name] = kcopy
		x.declared["specdef!"+sf.Name] = len(x.sess.marks) // allow self reference while building
		env := &Env{x: x, st: st, names: names, pkg: pkg}
		x.pure++
		var ok2 bool
		body, ok2 = env.eval(sf.Body)
		x.pure--
		delete(x.declared, "specdef!"+sf.Name)
		if !ok2 {
			x.specErr = env.err
			return nil, "", false
		}
		if len(kcopy) == len(keys) {
			keys = kcopy
			break
		}
		keys = kcopy
	}
	x.specDefs[sf.Name] = keys
	var hp []string
	for _, k := range keys {
		parts := strings.SplitN(k, "\x00", 2)
		hp = append(hp, "("+sym("hp!"+parts[0])+" "+parts[1]+")")
	}
	line := "(define-fun-rec " + name + " (" + strings.Join(append(hp, paramDecl...), " ") + ") " + retSort + " " + coerce(body.T, retSort).S + ")"
	x.decl("specdef!"+sf.Name, line)
	return keys, retSort, true
}

// ---------------------------------------------------------------------------
// Modifies clauses

func (e *Env) evalModifies(m ast.Expr) ([]modLoc, bool) {
	x := e.x
	e.err = ""
	switch n := m.(type) {
	case *ast.Ident:
		if g := x.P.C.Ghosts[n.Name]; g != nil {
			p, t, err := x.ghostPtr(g)
			if err != nil {
				e.err = err.Error()
				return nil, false
			}
			return objLocs(p.Base, t), true
		}
	case *ast.SelectorExpr:
		if ce, ok := n.X.(*ast.CallExpr); ok {
			if id, ok := ce.Fun.(*ast.Ident); ok && id.Name == "allof" && len(ce.Args) == 1 {
				// allof(T).f: field f of every object of struct type T
				t, err := x.P.resolveType(ce.Args[0], e.pkg)
				if err != nil {
					e.err = "modifies: " + err.Error()
					return nil, false
				}
				stt, ok := structOf(t)
				if !ok {
					e.err = "modifies: allof needs a struct type"
					return nil, false
				}
				for i := 0; i < stt.NumFields(); i++ {
					if stt.Field(i).Name() == n.Sel.Name {
						keys := map[string]string{}
						keysOfField(t, i, keys)
						var out []modLoc
						for _, k := range sortedKeys(keys) {
							out = append(out, modLoc{key: k, sort: keys[k]})
						}
						return out, true
					}
				}
				e.err = "modifies: no field " + n.Sel.Name
				return nil, false
			}
		}
		v, ok := e.eval(n.X)
		if !ok {
			return nil, false
		}
		if v.K != KPtr || v.P.Kind != PObj {
			e.err = "modifies: " + types.ExprString(n.X) + " is not a pointer to an object"
			return nil, false
		}
		stt, ok := structOf(v.P.Elem)
		if !ok {
			e.err = "modifies: not a struct"
			return nil, false
		}
		for i := 0; i < stt.NumFields(); i++ {
			f := stt.Field(i)
			if f.Name() != n.Sel.Name {
				continue
			}
			if _, isStruct := structOf(f.Type()); isStruct {
				fp := x.fieldPtr(e.st, v.P, i)
				return objLocs(fp.Base, f.Type()), true
			}
			var out []modLoc
			for _, l := range leavesOf(f.Type()) {
				k := fieldKey(v.P.Elem, f.Name(), l.suffix)
				out = append(out, modLoc{key: k, sort: keySort(k, l.sort), idx: []Term{v.P.Base}})
			}
			return out, true
		}
		e.err = "modifies: no field " + n.Sel.Name
		return nil, false
	case *ast.StarExpr:
		v, ok := e.eval(n.X)
		if !ok {
			return nil, false
		}
		if v.K != KPtr || v.P.Kind != PObj {
			e.err = "modifies: *" + types.ExprString(n.X) + " is not an object"
			return nil, false
		}
		return objLocs(v.P.Base, v.P.Elem), true
	case *ast.CallExpr:
		id, ok := n.Fun.(*ast.Ident)
		if !ok || len(n.Args) != 1 {
			break
		}
		if id.Name == "allof" {
			// allof(T): every object of struct type T
			t, err := x.P.resolveType(n.Args[0], e.pkg)
			if err != nil {
				e.err = "modifies: " + err.Error()
				return nil, false
			}
			keys := map[string]string{}
			keysOfPointee(t, keys)
			var out []modLoc
			for _, k := range sortedKeys(keys) {
				out = append(out, modLoc{key: k, sort: keys[k]})
			}
			return out, true
		}
		v, ok := e.eval(n.Args[0])
		if !ok {
			return nil, false
		}
		switch id.Name {
		case "fields":
			if v.K == KPtr && v.P.Kind == PObj {
				return objLocs(v.P.Base, v.P.Elem), true
			}
		case "elems":
			if v.K == KSlice {
				st, ok := under(v.Typ).(*types.Slice)
				if !ok {
					break
				}
				keys := map[string]string{}
				keysOfElem(st.Elem(), keys)
				var out []modLoc
				_, isStruct := structOf(st.Elem())
				for _, k := range sortedKeys(keys) {
					if isStruct {
						out = append(out, modLoc{key: k, sort: keys[k]}) // whole key (element structs are addressed by ep terms)
					} else {
						out = append(out, modLoc{key: k, sort: keys[k], idx: []Term{v.Fs[0].T}})
					}
				}
				return out, true
			}
		case "entries":
			if mt, ok := under(v.Typ).(*types.Map); ok {
				keys := map[string]string{}
				mapKeys(mt, keys)
				var out []modLoc
				for _, k := range sortedKeys(keys) {
					out = append(out, modLoc{key: k, sort: keys[k], idx: []Term{v.T}})
				}
				return out, true
			}
		case "allof":
			// allof(T): every object of struct type T
			t, err := x.P.resolveType(n.Args[0], e.pkg)
			if err == nil {
				keys := map[string]string{}
				keysOfPointee(t, keys)
				var out []modLoc
				for _, k := range sortedKeys(keys) {
					out = append(out, modLoc{key: k, sort: keys[k]})
				}
				return out, true
			}
		}
	case *ast.IndexExpr:
		xv, ok := e.eval(n.X)
		if !ok {
			return nil, false
		}
		iv, ok := e.eval(n.Index)
		if !ok {
			return nil, false
		}
		if xv.K == KSlice {
			if st, ok := under(xv.Typ).(*types.Slice); ok {
				if _, isStruct := structOf(st.Elem()); !isStruct {
					var out []modLoc
					for _, l := range leavesOf(st.Elem()) {
						k := elemKey(st.Elem(), l.suffix)
						out = append(out, modLoc{key: k, sort: keySort(k, l.sort), idx: []Term{xv.Fs[0].T, x.idx(xv.Fs[1].T, iv.T)}})
					}
					return out, true
				}
			}
		}
	}
	if e.err == "" {
		e.err = "unsupported modifies expression " + types.ExprString(m)
	}
	return nil, false
}

func objLocs(base Term, t types.Type) []modLoc {
	keys := map[string]string{}
	keysOfPointee(t, keys)
	var out []modLoc
	for _, k := range sortedKeys(keys) {
		// nested struct-by-value fields are addressed through ip terms: whole key
		if strings.HasPrefix(k, "F|"+typeName(t)+"|") || strings.HasPrefix(k, "C|") {
			out = append(out, modLoc{key: k, sort: keys[k], idx: []Term{base}})
		} else {
			out = append(out, modLoc{key: k, sort: keys[k]})
		}
	}
	return out
}

func (x *Exec) ghostPtr(g *GhostVar) (*Ptr, types.Type, error) {
	t, err := x.P.resolveType(g.Type, x.P.pkgOf(g.PkgPath))
	if err != nil {
		return nil, nil, err
	}
	return &Ptr{Kind: PObj, Base: x.reg.globalRef("ghost." + g.Name), Elem: t}, t, nil
}
