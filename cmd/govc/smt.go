package main

// SMT terms, solver sessions and the solver race.

import (
	"bufio"
	"context"
	"fmt"
	"io"
	"os"
	"os/exec"
	"path/filepath"
	"strconv"
	"strings"
	"sync"
	"time"
)

// Term is an SMT-LIB term with its sort (as SMT-LIB text).
type Term struct {
	S    string
	Sort string
}

const (
	sInt  = "Int"
	sBool = "Bool"
	sStr  = "String"
	sReal = "Real"
)

var (
	tTrue  = Term{"true", sBool}
	tFalse = Term{"false", sBool}
	tZero  = Term{"0", sInt}
	tNil   = Term{"0", sInt}
)

func arrSort(idx, el string) string { return "(Array " + idx + " " + el + ")" }

func intLit(n int64) Term {
	if n < 0 {
		return Term{"(- " + strconv.FormatUint(uint64(-n), 10) + ")", sInt}
	}
	return Term{strconv.FormatInt(n, 10), sInt}
}

func bigLit(s string) Term {
	if strings.HasPrefix(s, "-") {
		return Term{"(- " + s[1:] + ")", sInt}
	}
	return Term{s, sInt}
}

func strLit(s string) Term {
	var b strings.Builder
	b.WriteByte('"')
	for _, r := range s {
		switch {
		case r == '"':
			b.WriteString(`""`)
		case r == '\\':
			b.WriteString(`\u{5c}`)
		case r >= 32 && r < 127:
			b.WriteRune(r)
		default:
			fmt.Fprintf(&b, `\u{%x}`, r)
		}
	}
	b.WriteByte('"')
	return Term{b.String(), sStr}
}

func boolLit(b bool) Term {
	if b {
		return tTrue
	}
	return tFalse
}

func app(sort string, op string, args ...Term) Term {
	var b strings.Builder
	b.WriteByte('(')
	b.WriteString(op)
	for _, a := range args {
		b.WriteByte(' ')
		b.WriteString(a.S)
	}
	b.WriteByte(')')
	return Term{b.String(), sort}
}

func tNot(a Term) Term {
	switch a.S {
	case "true":
		return tFalse
	case "false":
		return tTrue
	}
	if strings.HasPrefix(a.S, "(not ") {
		return Term{a.S[5 : len(a.S)-1], sBool}
	}
	return app(sBool, "not", a)
}

func tAnd(as ...Term) Term {
	var keep []Term
	for _, a := range as {
		if a.S == "false" {
			return tFalse
		}
		if a.S == "true" {
			continue
		}
		keep = append(keep, a)
	}
	switch len(keep) {
	case 0:
		return tTrue
	case 1:
		return keep[0]
	}
	return app(sBool, "and", keep...)
}

func tOr(as ...Term) Term {
	var keep []Term
	for _, a := range as {
		if a.S == "true" {
			return tTrue
		}
		if a.S == "false" {
			continue
		}
		keep = append(keep, a)
	}
	switch len(keep) {
	case 0:
		return tFalse
	case 1:
		return keep[0]
	}
	return app(sBool, "or", keep...)
}

func tImplies(a, b Term) Term {
	if a.S == "true" {
		return b
	}
	if a.S == "false" || b.S == "true" {
		return tTrue
	}
	return app(sBool, "=>", a, b)
}

func tEq(a, b Term) Term {
	if a.S == b.S {
		return tTrue
	}
	if a.Sort == sInt && b.Sort == sInt && isNumLit(a.S) && isNumLit(b.S) {
		return tFalse
	}
	if a.Sort == sBool {
		if b.S == "true" {
			return a
		}
		if b.S == "false" {
			return tNot(a)
		}
		if a.S == "true" {
			return b
		}
		if a.S == "false" {
			return tNot(b)
		}
	}
	if a.Sort == sStr && isStrLit(a.S) && isStrLit(b.S) {
		return tFalse
	}
	return app(sBool, "=", a, b)
}

func isNumLit(s string) bool {
	if s == "" {
		return false
	}
	if strings.HasPrefix(s, "(- ") {
		s = s[3 : len(s)-1]
	}
	for _, c := range s {
		if c < '0' || c > '9' {
			return false
		}
	}
	return true
}

func isStrLit(s string) bool { return len(s) >= 2 && s[0] == '"' }

func tIte(c, a, b Term) Term {
	if c.S == "true" {
		return a
	}
	if c.S == "false" {
		return b
	}
	if a.S == b.S {
		return a
	}
	return app(a.Sort, "ite", c, a, b)
}

func tSelect(arr, idx Term) Term {
	// (Array I E) -> E
	el := arrElem(arr.Sort)
	return app(el, "select", arr, idx)
}

func tStore(arr, idx, v Term) Term { return app(arr.Sort, "store", arr, idx, v) }

// arrElem returns the element sort of "(Array I E)".
func arrElem(sort string) string {
	if !strings.HasPrefix(sort, "(Array ") {
		panic("not an array sort: " + sort)
	}
	body := sort[len("(Array ") : len(sort)-1]
	// index sort is the first s-expression of body
	i := sexpEnd(body, 0)
	return strings.TrimSpace(body[i:])
}

func arrIndex(sort string) string {
	body := sort[len("(Array ") : len(sort)-1]
	i := sexpEnd(body, 0)
	return strings.TrimSpace(body[:i])
}

func sexpEnd(s string, i int) int {
	for i < len(s) && s[i] == ' ' {
		i++
	}
	if i < len(s) && s[i] == '(' {
		d := 0
		for ; i < len(s); i++ {
			if s[i] == '(' {
				d++
			} else if s[i] == ')' {
				d--
				if d == 0 {
					return i + 1
				}
			}
		}
		return i
	}
	for i < len(s) && s[i] != ' ' {
		i++
	}
	return i
}

func sym(name string) string {
	for _, c := range name {
		if !(c >= 'a' && c <= 'z' || c >= 'A' && c <= 'Z' || c >= '0' && c <= '9' || c == '_' || c == '!' || c == '.' || c == '$' || c == '@') {
			return "|" + strings.NewReplacer("|", "!", "\\", "!").Replace(name) + "|"
		}
	}
	if name == "" || (name[0] >= '0' && name[0] <= '9') {
		return "|" + name + "|"
	}
	return name
}

// ---------------------------------------------------------------------------
// Incremental solver session (z3-new -in) with a mirrored script so that any
// obligation can be written out as a standalone file for the race.

type Session struct {
	cmd     *exec.Cmd
	in      io.WriteCloser
	out     *bufio.Reader
	lines   []string // mirrored script (declarations, assertions)
	marks   []int    // scope marks into lines
	errs    []string
	dead    bool
	queries int
	ms      int64
	logf    *os.File
	softMs  int
	feasMs  int
	curMs   int
	feasUnknown int
	feasSkip    int
	feasStep    int
	restarts    int
}

const prelude = `(set-option :produce-models true)
(set-logic ALL)
(define-fun godiv ((a Int) (b Int)) Int (ite (>= a 0) (ite (> b 0) (div a b) (- (div a (- b)))) (ite (> b 0) (- (div (- a) b)) (div (- a) (- b)))))
(define-fun gomod ((a Int) (b Int)) Int (- a (* b (godiv a b))))
(declare-fun bitand (Int Int) Int)
(declare-fun bitor (Int Int) Int)
(declare-fun bitxor (Int Int) Int)
(declare-fun shl (Int Int) Int)
(declare-fun shr (Int Int) Int)
(declare-fun andnot (Int Int) Int)
`

func newSession(softMs int, logPath string) (*Session, error) {
	s := &Session{softMs: softMs, feasMs: 50}
	if logPath != "" {
		s.logf, _ = os.Create(logPath)
	}
	if err := s.start(); err != nil {
		return nil, err
	}
	return s, nil
}

// start launches the solver process and brings it to the current scope (prelude, then the mirrored
// lines with their scope marks).
func (s *Session) start() error {
	// The per-query limit is z3's deterministic resource counter (about 6.5 million units per
	// second of an idle core here), not wall-clock time: the outcome of a query must not depend on
	// how busy the machine is. The wall-clock limit is only a safety net.
	cmd := exec.Command("z3-new", "-in", "-smt2", fmt.Sprintf("-t:%d", s.softMs*2+1000))
	in, err := cmd.StdinPipe()
	if err != nil {
		return err
	}
	out, err := cmd.StdoutPipe()
	if err != nil {
		return err
	}
	cmd.Stderr = nil
	if err := cmd.Start(); err != nil {
		return err
	}
	s.cmd, s.in, s.out = cmd, in, bufio.NewReaderSize(out, 1<<16)
	s.curMs = 0
	for _, l := range strings.Split(strings.TrimSpace(prelude), "\n") {
		s.raw(l)
	}
	mi := 0
	for i, l := range s.lines {
		for mi < len(s.marks) && s.marks[mi] == i {
			s.raw("(push 1)")
			mi++
		}
		s.raw(l)
	}
	for ; mi < len(s.marks); mi++ {
		s.raw("(push 1)")
	}
	s.setLimit(s.softMs)
	return nil
}

// restart replaces the solver process: after a query that ran into the resource limit z3 5.1.0
// can stay in a cancelled state in which every later (push) fails.
func (s *Session) restart() {
	s.restarts++
	if s.logf != nil {
		fmt.Fprintln(s.logf, "; ---- restart ----")
	}
	old, oldIn := s.cmd, s.in
	want := s.curMs
	go func() {
		oldIn.Close()
		old.Process.Kill()
		old.Wait()
	}()
	if err := s.start(); err != nil {
		s.dead = true
		s.errs = append(s.errs, "cannot restart solver: "+err.Error())
		return
	}
	s.setLimit(want)
}

func (s *Session) raw(l string) {
	if s.dead {
		return
	}
	if s.logf != nil {
		fmt.Fprintln(s.logf, l)
	}
	if _, err := io.WriteString(s.in, l+"\n"); err != nil {
		s.dead = true
		s.errs = append(s.errs, "solver pipe: "+err.Error())
	}
}

// Emit adds a declaration or assertion to the current scope.
func (s *Session) Emit(l string) {
	s.lines = append(s.lines, l)
	s.raw(l)
}

func (s *Session) Assert(t Term) {
	if t.S == "true" {
		return
	}
	s.Emit("(assert " + t.S + ")")
}

func (s *Session) Push() {
	s.marks = append(s.marks, len(s.lines))
	s.raw("(push 1)")
}

func (s *Session) Pop() {
	n := s.marks[len(s.marks)-1]
	s.marks = s.marks[:len(s.marks)-1]
	s.lines = s.lines[:n]
	s.raw("(pop 1)")
}

// Feasible is a cheap satisfiability check used to prune infeasible branches: "unknown" after a
// short time limit counts as feasible (pruning is an optimisation, never needed for soundness).
func (s *Session) Feasible() string {
	// when the context has grown quantifiers the solver answers "unknown" after the time limit over
	// and over: stop asking for a while (every branch then counts as feasible)
	if s.feasSkip > 0 {
		s.feasSkip--
		return "unknown"
	}
	s.setLimit(s.feasMs)
	r := s.Check()
	s.setLimit(s.softMs)
	if r == "unknown" {
		s.feasUnknown++
		if s.feasUnknown >= 3 {
			// back off: 25, 50, 100, 200 branches without asking, as long as asking stays fruitless
			if s.feasStep < 25 {
				s.feasStep = 25
			} else if s.feasStep < 200 {
				s.feasStep *= 2
			}
			s.feasSkip = s.feasStep
			s.feasUnknown = 2
		}
	} else {
		s.feasUnknown = 0
		s.feasStep = 0
	}
	return r
}

// rlimitPerMs converts a time budget into z3 resource units (calibrated on this machine, idle).
const rlimitPerMs = 6500

func (s *Session) setLimit(ms int) {
	if ms <= 0 || ms == s.curMs {
		return
	}
	s.curMs = ms
	s.raw(fmt.Sprintf("(set-option :rlimit %d)", ms*rlimitPerMs))
}

// Check returns "sat", "unsat" or "unknown".
func (s *Session) Check() string {
	if s.dead {
		return "unknown"
	}
	t0 := time.Now()
	s.raw("(check-sat)")
	s.queries++
	verdict := ""
	for verdict == "" {
		line, err := s.out.ReadString('\n')
		if err != nil {
			s.dead = true
			s.errs = append(s.errs, "solver died: "+err.Error())
			return "unknown"
		}
		line = strings.TrimSpace(line)
		if s.logf != nil {
			fmt.Fprintln(s.logf, "; -> "+line)
		}
		switch {
		case line == "sat" || line == "unsat" || line == "unknown" || line == "timeout":
			verdict = line
		case line == "":
		case strings.HasPrefix(line, "(error"):
			s.errs = append(s.errs, line)
		default:
			// anything else: unsupported / warnings
			s.errs = append(s.errs, "unexpected solver output: "+line)
		}
	}
	s.ms += time.Since(t0).Milliseconds()
	if verdict == "sat" || verdict == "unsat" {
		return verdict
	}
	// why unknown? After running into the resource limit z3 5.1.0 can stay cancelled (every later
	// (push) fails), so the process is replaced; "incomplete quantifiers" leaves it usable.
	s.raw("(get-info :reason-unknown)")
	reason := ""
	if !s.dead {
		line, err := s.out.ReadString('\n')
		if err != nil {
			s.dead = true
			s.errs = append(s.errs, "solver died: "+err.Error())
			return "unknown"
		}
		reason = strings.TrimSpace(line)
		if s.logf != nil {
			fmt.Fprintln(s.logf, "; -> "+reason)
		}
	}
	if verdict == "timeout" || !strings.Contains(reason, "incomplete") {
		// probe: does the process still accept a scope? (push 1)(pop 1) print nothing when they work
		s.raw("(push 1)")
		s.raw("(pop 1)")
		s.raw("(echo \"@probe\")")
		healthy := true
		for !s.dead {
			line, err := s.out.ReadString('\n')
			if err != nil {
				s.dead = true
				s.errs = append(s.errs, "solver died: "+err.Error())
				return "unknown"
			}
			line = strings.TrimSpace(line)
			if s.logf != nil {
				fmt.Fprintln(s.logf, "; -> "+line)
			}
			if strings.Contains(line, "@probe") {
				break
			}
			if strings.HasPrefix(line, "(error") {
				healthy = false
			}
		}
		if !healthy {
			s.restart()
		}
	}
	return "unknown"
}

// Script returns a standalone script for the current scope plus extra lines.
func (s *Session) Script(extra ...string) string {
	var b strings.Builder
	b.WriteString(prelude)
	for _, l := range s.lines {
		b.WriteString(l)
		b.WriteByte('\n')
	}
	for _, l := range extra {
		b.WriteString(l)
		b.WriteByte('\n')
	}
	return b.String()
}

func (s *Session) Close() {
	if s.logf != nil {
		s.logf.Close()
	}
	if s.in != nil {
		io.WriteString(s.in, "(exit)\n")
		s.in.Close()
	}
	done := make(chan struct{})
	go func() { s.cmd.Wait(); close(done) }()
	select {
	case <-done:
	case <-time.After(2 * time.Second):
		s.cmd.Process.Kill()
		<-done
	}
}

// ---------------------------------------------------------------------------
// Standalone race.

type SolverAnswer struct {
	Solver string `json:"solver"`
	Result string `json:"result"` // sat unsat unknown timeout error
	Ms     int64  `json:"ms"`
	Output string `json:"output,omitempty"`
}

type solverSpec struct {
	name string
	args func(file string, ms int, seed int) []string
}

var solvers = []solverSpec{
	{"z3-5.1.0", func(f string, ms, seed int) []string {
		return []string{"z3-new", "-smt2", fmt.Sprintf("-T:%d", (ms+999)/1000), fmt.Sprintf("smt.random_seed=%d", seed), fmt.Sprintf("sat.random_seed=%d", seed), f}
	}},
	{"cvc5-1.0.3", func(f string, ms, seed int) []string {
		return []string{"cvc5", "--incremental", "--strings-exp", fmt.Sprintf("--tlimit=%d", ms), fmt.Sprintf("--seed=%d", seed), f}
	}},
	{"z3-4.8.12", func(f string, ms, seed int) []string {
		return []string{"/usr/bin/z3", "-smt2", fmt.Sprintf("-T:%d", (ms+999)/1000), fmt.Sprintf("smt.random_seed=%d", seed), f}
	}},
}

var raceSem = make(chan struct{}, 14)

// cpuMs returns the CPU time (user+system) a process has used so far.
func cpuMs(pid int) int64 {
	b, err := os.ReadFile(fmt.Sprintf("/proc/%d/stat", pid))
	if err != nil {
		return -1
	}
	t := string(b)
	if i := strings.LastIndexByte(t, ')'); i >= 0 {
		t = t[i+1:]
	}
	f := strings.Fields(t)
	if len(f) < 13 {
		return -1
	}
	var u, sy int64
	fmt.Sscan(f[11], &u)
	fmt.Sscan(f[12], &sy)
	return (u + sy) * 10 // USER_HZ = 100
}

// runSolver runs one solver on a script. The budget ms is CPU time of the solver process, not
// wall-clock time, so that the answer does not depend on what else the machine is doing; wall
// time is capped at ten times the budget as a safety net.
func runSolver(ctx context.Context, sp solverSpec, file string, ms, seed int) SolverAnswer {
	raceSem <- struct{}{}
	defer func() { <-raceSem }()
	if ctx.Err() != nil {
		return SolverAnswer{Solver: sp.name, Result: "cancelled"}
	}
	wallMs := ms*10 + 5000
	args := sp.args(file, wallMs, seed)
	c, cancel := context.WithTimeout(ctx, time.Duration(wallMs+2000)*time.Millisecond)
	defer cancel()
	t0 := time.Now()
	cmd := exec.CommandContext(c, args[0], args[1:]...)
	var buf strings.Builder
	cmd.Stdout = &buf
	cmd.Stderr = &buf
	overBudget := false
	var used int64
	if err := cmd.Start(); err == nil {
		done := make(chan struct{})
		go func() { cmd.Wait(); close(done) }()
		tick := time.NewTicker(50 * time.Millisecond)
	loop:
		for {
			select {
			case <-done:
				break loop
			case <-tick.C:
				if u := cpuMs(cmd.Process.Pid); u >= 0 {
					used = u
					if u > int64(ms) {
						overBudget = true
						cmd.Process.Kill()
					}
				}
			}
		}
		tick.Stop()
	}
	el := time.Since(t0).Milliseconds()
	if used > 0 && used < el {
		el = used
	}
	text := buf.String()
	// z3 prints pattern warnings before the answer
	for strings.HasPrefix(text, "WARNING") {
		if i := strings.Index(text, "\n"); i >= 0 {
			text = text[i+1:]
		} else {
			text = ""
		}
	}
	first := strings.TrimSpace(strings.SplitN(text, "\n", 2)[0])
	res := "error"
	switch first {
	case "sat", "unsat", "unknown", "timeout":
		res = first
	default:
		if ctx.Err() != nil {
			res = "cancelled"
		} else if overBudget || c.Err() != nil || strings.Contains(text, "timeout") || strings.Contains(text, "interrupted") {
			res = "timeout"
		}
	}
	if len(text) > 20000 {
		text = text[:20000] + "\n...truncated"
	}
	return SolverAnswer{Solver: sp.name, Result: res, Ms: el, Output: text}
}

// race runs the solvers on the script; all==false stops at the first sat/unsat.
func race(file string, ms, seed int, all bool) (winner SolverAnswer, answers []SolverAnswer) {
	ctx, cancel := context.WithCancel(context.Background())
	defer cancel()
	ch := make(chan SolverAnswer, len(solvers))
	var wg sync.WaitGroup
	for _, sp := range solvers {
		wg.Add(1)
		go func(sp solverSpec) {
			defer wg.Done()
			ch <- runSolver(ctx, sp, file, ms, seed)
		}(sp)
	}
	go func() { wg.Wait(); close(ch) }()
	winner = SolverAnswer{Result: "unknown"}
	for a := range ch {
		answers = append(answers, a)
		if (a.Result == "sat" || a.Result == "unsat") && winner.Result != "sat" && winner.Result != "unsat" {
			winner = a
			if !all {
				cancel()
			}
		}
	}
	return
}

func writeFile(path, content string) error {
	if err := os.MkdirAll(filepath.Dir(path), 0o755); err != nil {
		return err
	}
	return os.WriteFile(path, []byte(content), 0o644)
}
